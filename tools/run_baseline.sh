#!/bin/sh
# Run the repository's test suite (xdist, same selection as BASELINE.json) and compare with stable_pass.
# usage: tools/run_baseline.sh [repo_dir] [workers]
REPO=${1:-/repo}; N=${2:-14}
OUT=$(mktemp -d /dev/shm/baseline.XXXX)
cd "$REPO" && timeout 2400 /venv/bin/python -m pytest -q -p no:cacheprovider -n "$N" --timeout=900 --continue-on-collection-errors --junitxml="$OUT/j.xml" > "$OUT/log" 2>&1
/venv/bin/python - "$OUT/j.xml" <<'PY'
import json, sys, xml.etree.ElementTree as ET
base = json.load(open("/root/.vp/BASELINE.json"))
want = set(base["stable_pass"])
passed = set()
for tc in ET.parse(sys.argv[1]).getroot().iter("testcase"):
    name = f"{tc.get('classname')}::{tc.get('name')}"
    if not any(ch.tag in ("failure", "error", "skipped") for ch in tc):
        passed.add(name)
missing = sorted(want - passed)
print(f"baseline: {len(want & passed)}/{len(want)} stable tests pass; newly passing: {len(passed - want)}")
for m in missing:
    print("  MISSING", m)
sys.exit(1 if missing else 0)
PY
rc=$?
[ $rc -ne 0 ] && tail -60 "$OUT/log"
rm -rf "$OUT"
exit $rc
