#!/bin/sh
# Sensitivity self-test: every seeded change under /verif/seeded must make its property's quick check exit 1
# with a VIOLATION line, on a scratch copy of /repo/src (never on /repo itself).  usage: tools/sensitivity.sh [budget_s|default] [ids...]   (default = the quick tier as registered: 50 s and at least 400 runs)
cd "$(dirname "$0")/.." || exit 9
BUDGET=${1:-45}; shift 2>/dev/null
# with explicit ids the result goes to a scratch file: evidence/selftest_sensitivity.json holds the merged full pass
if [ -n "$*" ]; then OUTJSON=$(mktemp /dev/shm/sensitivity-subset.XXXX.json); else OUTJSON=evidence/selftest_sensitivity.json; fi
IDS=${*:-$(for d in seeded/*; do grep -q "\"out_of_scope\": true" $d/meta.json || basename $d; done)}
RES=""
for id in $IDS; do
  PROP=$(/venv/bin/python -c "import json;m=json.load(open('seeded/$id/meta.json'));print(m.get('check_property') or m['property'])")
  # a few changes only show in the thorough tier (e.g. a position at the documented table limit): meta.json says so
  EXTRA=$(/venv/bin/python -c "import json;print(json.load(open('seeded/$id/meta.json')).get('check_args',''))")
  S=$(mktemp -d /dev/shm/sens.XXXX)
  cp -r /repo/src "$S/src"
  if ! patch -s -p1 -d "$S" < seeded/$id/patch.diff; then echo "$id: patch does not apply to the current tree"; RES="$RES \"$id\": \"patch_does_not_apply\","; rm -rf "$S"; continue; fi
  export VERIF_EVIDENCE_DIR="$S/ev"
  if [ -n "$EXTRA" ]; then OUT=$(VERIF_REPO_SRC="$S/src" ./check "$PROP" $EXTRA 2>&1); rc=$?
  elif [ "$BUDGET" = "default" ]; then OUT=$(VERIF_REPO_SRC="$S/src" ./check "$PROP" 2>&1); rc=$?
  else OUT=$(VERIF_REPO_SRC="$S/src" ./check "$PROP" --budget "$BUDGET" 2>&1); rc=$?; fi
  LINE=$(echo "$OUT" | grep -m1 "check=" | cut -c1-160)
  echo "$id ($PROP): rc=$rc $LINE"
  if [ $rc -eq 1 ]; then RES="$RES \"$id\": \"caught\","; else RES="$RES \"$id\": \"MISSED rc=$rc\","; fi
  rm -rf "$S"
done
unset VERIF_EVIDENCE_DIR
mkdir -p evidence
echo "{ ${RES%,} }" > $OUTJSON
echo "wrote $OUTJSON"
grep -c caught $OUTJSON >/dev/null
if grep -q MISSED $OUTJSON; then exit 1; fi
exit 0
