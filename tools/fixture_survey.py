#!/venv/bin/python
"""Survey tests/data with the library itself: which fixtures open, how big, which features.
Only used to choose workloads (which fixture suits which profile); never as an oracle."""
import json, os, sys, time, warnings
sys.path.insert(0, "/repo/src")
from numbers_parser import Document
D = "/repo/tests/data"
out = {}
for name in sorted(os.listdir(D)):
    if not name.endswith(".numbers"):
        continue
    p = os.path.join(D, name)
    t = time.time()
    rec = {"form": "package" if os.path.isdir(p) else "file"}
    try:
        with warnings.catch_warnings(record=True) as ws:
            warnings.simplefilter("always")
            doc = Document(p)
            rec["warnings"] = sorted({w.category.__name__ + ":" + str(w.message)[:50] for w in ws})
            cells = 0; classes = {}; merges = 0; tables = 0; formulas = 0; maxcells = 0
            for s in doc.sheets:
                for tb in s.tables:
                    tables += 1
                    n = 0
                    for row in tb.rows():
                        for c in row:
                            n += 1
                            k = type(c).__name__
                            classes[k] = classes.get(k, 0) + 1
                            if c.is_merged: merges += 1
                            if c.is_formula: formulas += 1
                    cells += n; maxcells = max(maxcells, n)
            rec.update(opens=True, sheets=len(doc.sheets), tables=tables, cells=cells, max_table_cells=maxcells, classes=classes, merges=merges, formulas=formulas)
    except Exception as e:
        rec.update(opens=False, error=type(e).__name__ + ": " + str(e)[:80])
    rec["open_s"] = round(time.time() - t, 2)
    out[name] = rec
json.dump(out, open("/verif/dsim/fixtures.json", "w"), indent=1, sort_keys=True)
for k, v in out.items():
    print(k, v.get("opens"), v.get("cells"), v.get("merges"), v.get("formulas"), v.get("classes"), v.get("warnings"), v.get("error"), v["open_s"])
