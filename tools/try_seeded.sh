#!/bin/sh
# usage: tools/try_seeded.sh <patch.diff | worktree-dir> <PROP> [budget_s] [seed]
#  patch file : applies it to /repo, runs the check, always reverts (do not use while another run reads /repo)
#  directory  : runs the check against <dir>/src (a worktree that has the change applied) via VERIF_REPO_SRC
# evidence of these runs goes to a scratch directory, never to /verif/evidence
WHAT=$1; PROP=$2; BUDGET=${3:-50}; SEED=${4:-0}
export VERIF_EVIDENCE_DIR=$(mktemp -d /dev/shm/seeded-ev.XXXX)
if [ -d "$WHAT" ]; then
  cd /verif && VERIF_REPO_SRC="$WHAT/src" VERIF_SEED=$SEED ./check "$PROP" --budget "$BUDGET" 2>&1 | grep -v "conda\|KNOWN-FINDING" | grep -E "VIOLATION|check=|\[dsim\] C|HARNESS" | head -8 | cut -c1-400
  rm -rf "$VERIF_EVIDENCE_DIR"; exit 0
fi
cd /repo || exit 9
if [ -n "$(git status --porcelain --untracked-files=no)" ]; then echo "/repo is dirty, refusing"; exit 9; fi
git apply "$WHAT" || { echo "patch does not apply"; exit 9; }
cd /verif && VERIF_SEED=$SEED ./check "$PROP" --budget "$BUDGET" 2>&1 | grep -v "conda\|KNOWN-FINDING" | grep -E "VIOLATION|check=|\[dsim\] C|HARNESS" | head -8 | cut -c1-400
git -C /repo checkout -- .
echo "[reverted] $(git -C /repo status --porcelain --untracked-files=no | wc -l) dirty files"
rm -rf "$VERIF_EVIDENCE_DIR"
