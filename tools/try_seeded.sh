#!/bin/sh
# usage: tools/try_seeded.sh <patch.diff> <PROP> [budget_s] [seed]   -- applies the patch to /repo, runs the check, always reverts
PATCH=$1; PROP=$2; BUDGET=${3:-50}; SEED=${4:-0}
cd /repo || exit 9
if [ -n "$(git status --porcelain --untracked-files=no)" ]; then echo "/repo is dirty, refusing"; exit 9; fi
git apply "$PATCH" || { echo "patch does not apply"; exit 9; }
cd /verif && VERIF_SEED=$SEED ./check "$PROP" --budget "$BUDGET" 2>&1 | grep -v "conda\|KNOWN-FINDING" | tail -8 | cut -c1-500
rc=$?
git -C /repo checkout -- . 
echo "[reverted] $(git -C /repo status --porcelain --untracked-files=no | wc -l) dirty files"
