#!/bin/sh
# Soundness drills: behaviour-preserving refactors of a scratch copy of /repo/src must leave every check at exit 0.
# usage: tools/soundness_drill.sh [budget_s] [props...]
cd "$(dirname "$0")/.." || exit 9
B=${1:-25}; shift 2>/dev/null
PROPS=${*:-"C01 C02 C03 C06 C07 C11 C12 C15 C16 C17 C19"}
S=$(mktemp -d /dev/shm/drill.XXXX); cp -r /repo/src "$S/src"
/venv/bin/python drills/atomic_save_no_memo.py "$S/src" || exit 9
export VERIF_EVIDENCE_DIR="$S/ev"; BAD=0
for p in $PROPS; do
  OUT=$(VERIF_REPO_SRC="$S/src" ./check $p --budget $B 2>&1); rc=$?
  echo "$p rc=$rc $(echo "$OUT" | grep '^\[dsim\] C' | tail -1 | cut -c1-160)"
  [ $rc -ne 0 ] && { BAD=1; echo "$OUT" | grep -A3 -E "VIOLATION|HARNESS" | head -12; }
done
rm -rf "$S"; exit $BAD
