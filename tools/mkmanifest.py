#!/venv/bin/python
"""Regenerate /verif/MANIFEST.json from the tables below (single source of truth)."""
import json
import os

HERE = os.path.dirname(os.path.dirname(os.path.abspath(__file__)))

TRUSTED = ("Trusted: CPython, zipfile, snappy, protobuf and the generated schema modules, tmpfs, the reference models in dsim/models.py. "
           "Sampled by seed, not enumerated; Apple Numbers itself is not in the sandbox.")

CLAIMED = {
    "C03": {
        "level": "exploration",
        "text": "Seeded deterministic simulation: generated edit histories (writes, row/column insert/delete, add table/sheet, renames, repeated saves, restarts from disk, several documents at once) run against the real library and a list-of-lists reference model in lock-step; the whole grid of every open table is compared after every operation and again on the reopened file; write faults (ENOSPC/EIO, crash with torn file) are injected into saves and recovery is checked. Sampling, not proof: right level because the quantifier is over unbounded histories.",
        "design_ref": "DESIGN.md section 5 (C03), sections 3-4",
        "technique": "deterministic simulation: seeded op/fault schedules, lock-step reference model, crash/ENOSPC injection at the io.open seam, ddmin-minimised replay files",
    },
}

PENDING = {'C01': 'intended claim (see DESIGN.md section 5); the check is not built yet in this commit', 'C02': 'intended claim (see DESIGN.md section 5); the check is not built yet in this commit', 'C06': 'intended claim (see DESIGN.md section 5); the check is not built yet in this commit', 'C07': 'intended claim (see DESIGN.md section 5); the check is not built yet in this commit', 'C11': 'intended claim (see DESIGN.md section 5); the check is not built yet in this commit', 'C12': 'intended claim (see DESIGN.md section 5); the check is not built yet in this commit', 'C15': 'intended claim (see DESIGN.md section 5); the check is not built yet in this commit', 'C16': 'intended claim (see DESIGN.md section 5); the check is not built yet in this commit', 'C17': 'intended claim (see DESIGN.md section 5); the check is not built yet in this commit', 'C19': 'intended claim (see DESIGN.md section 5); the check is not built yet in this commit'}

NOT_APPLICABLE = {
    "C04": "pure function of one byte record (cell record encode/decode over kinds x flag subsets): no I/O, state, schedule or fault for a simulator to control; input enumeration, not simulation (DESIGN.md section 5)",
    "C05": "IWAFile.from_buffer/to_buffer map one complete in-memory buffer to objects and back: no stream, partial delivery, state or fault; chunking-independence is exercised end-to-end inside C06 (DESIGN.md section 5)",
    "C08": "formula rendering is a pure fold over a stored node array: no schedule, clock, fault or history in the statement (DESIGN.md section 5)",
    "C09": "reference printing is a pure function of the stored node and the document's names; deciding it needs an independent resolver over generated ASTs, i.e. input generation, not simulation (DESIGN.md section 5)",
    "C10": "four pure functions over integers and short strings; exhaustive enumeration decides it, a simulator adds nothing (DESIGN.md section 5)",
    "C13": "formatted_value is a pure function of (value, format record): no I/O, state or schedule (DESIGN.md section 5)",
    "C14": "date/duration rendering is a pure function of (value, format string): no I/O, state or schedule (DESIGN.md section 5)",
    "C18": "the tokenizer is a pure function of a string (DESIGN.md section 5)",
    "C20": "a pure function of the CSV text and flags through two command-line entry points; the only persistence hop in it is the one C01/C03 exercise; no schedule, history or fault in the statement (DESIGN.md section 5)",
}


def main():
    checks = []
    for pid, c in sorted(CLAIMED.items()):
        checks.append({
            "property_id": pid,
            "quick_cmd": f"./check {pid} --tier quick",
            "thorough_cmd": f"./check {pid} --tier thorough",
            "evidence_file": f"/verif/evidence/{pid}.json",
            "replay_cmd_template": f"./check {pid} --replay {{path}}",
            "engine": "dsim",
            "level_claimed": {"category": c["level"], "text": c["text"], "design_ref": c["design_ref"]},
            "level_note": TRUSTED,
            "technique": c["technique"],
        })
    na = [{"property_id": k, "reason": v} for k, v in sorted({**NOT_APPLICABLE, **PENDING}.items())]
    m = {
        "version": 1,
        "setup_cmd": "./setup.sh",
        "hooks": {
            "guard": "NUMBERS_PARSER_VERIF",
            "enable": "no hook in /repo is needed: every seam (io.open/builtins.open, os.listdir/os.scandir, zipfile.time, uuid.uuid1) is patched from outside at run time by dsim/world.py; the guard name is reserved and unused",
            "baseline_off_cmd": "cd /repo && /venv/bin/python -m pytest -ra -q -p no:cacheprovider --timeout=900 --continue-on-collection-errors",
            "source_commits": [],
            "add_only": True,
        },
        "engines": [{
            "name": "dsim",
            "path": "/verif/dsim",
            "serves_properties": sorted(CLAIMED),
            "kind_free_text": "deterministic simulator: seeded scheduler over total JSON operations, simulated disk with write faults/crash/at-rest corruption/relayout, simulated clock/uuid/directory order, lock-step reference models, ddmin shrinker, explicit op-list replay files",
        }],
        "checks": checks,
        "not_applicable": na,
        "notes": "Exit codes: 0 held, 1 VIOLATION line printed, 2 harness error/timeout (never 0). Genuine defects found on the pinned tree were repaired with 'fix:' commits in /repo and are listed in /verif/known_findings.json.",
    }
    with open(os.path.join(HERE, "MANIFEST.json"), "w") as fh:
        json.dump(m, fh, indent=1)
    print("wrote MANIFEST.json:", len(checks), "checks,", len(na), "not applicable")


if __name__ == "__main__":
    main()
