#!/venv/bin/python
"""Regenerate /verif/MANIFEST.json from the tables below (single source of truth)."""
import json
import os

HERE = os.path.dirname(os.path.dirname(os.path.abspath(__file__)))

TRUSTED = ("Trusted: CPython, zipfile, snappy, protobuf and the generated schema modules, tmpfs, the reference models in dsim/models.py. "
           "Sampled by seed, not enumerated; Apple Numbers itself is not in the sandbox.")

TECH = "deterministic simulation: seeded op/fault schedules over the real library, lock-step reference model, faults at the io.open/listdir/clock/uuid/tempfile seams, seeded ambient configuration (decimal context, time zone, logger level, a python -O part), one process per run, ddmin-minimised explicit replay files"

ALL_CLAIMS = {
    "C01": {
        "level": "exploration",
        "text": "Seeded simulation across the persistence boundary: 40-400 generated values per run (all C01 domains, with exhaustive integer and 2-decimal-price blocks stratified by run index) are written inside and outside the table bounds of tables whose shapes straddle 256-row tiles and 256 columns, saved to a simulated disk (file and package form, fresh and overwritten slots) and reopened; the reopened cell class and exact typed value of every cell is compared with the model. Sampling of an infinite value domain: evidence, not proof.",
        "design_ref": "DESIGN.md section 5 (C01)",
    },
    "C02": {
        "level": "exploration",
        "text": "Every fixture that opens (plus documents built in-run) is re-saved 1-3 times under seeded schedules of read-only accessor calls (formula, formatted_value, style, border, row_height...) placed before saves or not; a deep snapshot (order, names, cell class, value, formula text, formatted value, bullets, hyperlinks, merge state) of each reopened copy is compared with a pristine twin that was never saved, and cycle n+1 with cycle n.",
        "design_ref": "DESIGN.md section 5 (C02)",
    },
    "C03": {
        "level": "exploration",
        "text": "Seeded deterministic simulation: generated edit histories (writes, row/column insert/delete, add table/sheet, renames, repeated saves, restarts from disk, several documents at once, loaded fixtures) run against the real library and a list-of-lists reference model in lock-step; the whole grid of every open table is compared after every operation and again on the reopened file; write faults (ENOSPC/EIO, crash leaving a torn file) are injected into saves and recovery within two steps is checked. Sampling, not proof: right level because the quantifier is over unbounded histories.",
        "design_ref": "DESIGN.md section 5 (C03), sections 3-4",
    },
    "C06": {
        "level": "exploration",
        "text": "Metamorphic simulation of the storage layer: a disk-side actor rewrites a saved or shipped document by seeded compositions of meaning-preserving layout changes (member order, stored/deflated, file <-> package with Index.zip <-> loose Index/, IWA re-chunking down to 1-byte chunks, permutation of every lookup list, byte <-> 4-byte cell offsets, header records for empty rows, directory order per listdir call) using an independent IWA codec; the document read from the rewritten file must equal the one read from the original (deep snapshot), with no silent lookup fallback.",
        "design_ref": "DESIGN.md section 5 (C06)",
    },
    "C07": {
        "level": "exploration",
        "text": "An independent package validator (own unzip + IWA codec + generated schemas only) runs on every file produced by a successful save in seeded histories (tables, sheets, styles, custom formats, borders, captions, merges, control cells, tile-boundary shapes, repeated saves, saves after failed saves, save-reopen-save chains) and on the plain re-save of fixtures: reopens, references closed except the source's baseline dangling set, ids unique and <= high-water mark, every added archive listed in metadata, tiles/rows/offsets/record lengths consistent.",
        "design_ref": "DESIGN.md section 5 (C07)",
    },
    "C11": {
        "level": "exploration",
        "text": "Lock-step twin tables receive the same seeded history, one addressed in row/column form, the other in A1/$A$1 form, and must stay equal to each other and to the model after every call; every position-taking method is probed with negative, one-past, and beyond-limit positions in both notations and must raise IndexError leaving the whole document unchanged; growth must be to exactly the needed size; iter_rows/iter_cols over all boundary min/max combinations must yield exactly the model rectangle or raise IndexError.",
        "design_ref": "DESIGN.md section 5 (C11)",
    },
    "C12": {
        "level": "exploration",
        "text": "Seeded histories of merges (disjoint rectangles, singly or as lists), writes, row/column insertions and deletions before/inside/after the rectangles, saves and restarts; after every op and on the reopened file: anchor size, placeholder class/value/rect, untouched outside cells, merge_ranges equal the model's set of rectangles, and the open picture equals the reloaded picture.",
        "design_ref": "DESIGN.md section 5 (C12)",
    },
    "C15": {
        "level": "exploration",
        "text": "Seeded histories of add_style / set_cell_style / write(style=) over all 15 attributes and of border strokes (side, start, length, width, colour, pattern; overlapping, abutting, superseding) against a last-writer-wins edge model; style/border reads are scheduled observer events; an observed and an unobserved twin must reload equal (reading is pure), and the open document must equal the reloaded one.",
        "design_ref": "DESIGN.md section 5 (C15)",
    },
    "C16": {
        "level": "exploration",
        "text": "Seeded histories setting any subset of row heights, column widths, header counts, names, caption text/visibility, table-name visibility and coordinates on fixtures and new documents, with strokes of various widths on the affected rows/columns, with or without size observers before saving, over 1-3 save/reopen cycles with an observer twin: set values survive, source values survive unobserved, and nothing drifts between cycles.",
        "design_ref": "DESIGN.md section 5 (C16)",
    },
    "C17": {
        "level": "fault_enumeration",
        "text": "Fault injection at rest and in flight: every shipped fixture (valid and deliberately bad) and documents saved in-run are damaged by seeded sequences of 1-3 faults from a catalogue of 29 kinds (truncation classes, aimed bit flips and overwrites, 13 per-member faults applied through a valid re-zip with an independent IWA codec, container faults), plus torn files from crashes injected into saves and non-document paths; every open is classified opened / library error / escape, and an escape from container loading (iwork.py, iwafile.py, ObjectStore init) is a violation keyed by exception class and function. Thorough enumerates fixture x member-level fault kind.",
        "design_ref": "DESIGN.md section 5 (C17)",
    },
    "C19": {
        "level": "exploration",
        "text": "Seeded histories of add_sheet/add_table with named, unnamed, case-variant duplicate and generated-looking names, renames, lookups by every name and every index in [-2n-k, 2n+k], saves and restarts, against an ordered-list model: unique names after every op, fresh generated names, duplicates refused with IndexError and nothing changed, lookups consistent with iteration order, names and order preserved by save/reopen.",
        "design_ref": "DESIGN.md section 5 (C19)",
    },
}
BUILT = ["C01", "C02", "C03", "C06", "C07", "C11", "C12", "C15", "C16", "C17", "C19"]
CLAIMED = {k: {**v, "technique": TECH} for k, v in ALL_CLAIMS.items() if k in BUILT}

PENDING = {k: "intended claim (DESIGN.md section 5); the check is not built yet in this commit" for k in ALL_CLAIMS if k not in BUILT}

NOT_APPLICABLE = {
    "C04": "pure function of one byte record (cell record encode/decode over kinds x flag subsets): no I/O, state, schedule or fault for a simulator to control; input enumeration, not simulation (DESIGN.md section 5)",
    "C05": "IWAFile.from_buffer/to_buffer map one complete in-memory buffer to objects and back: no stream, partial delivery, state or fault; chunking-independence is exercised end-to-end inside C06 (DESIGN.md section 5)",
    "C08": "formula rendering is a pure fold over a stored node array: no schedule, clock, fault or history in the statement (DESIGN.md section 5)",
    "C09": "reference printing is a pure function of the stored node and the document's names; deciding it needs an independent resolver over generated ASTs, i.e. input generation, not simulation (DESIGN.md section 5)",
    "C10": "four pure functions over integers and short strings; exhaustive enumeration decides it, a simulator adds nothing (DESIGN.md section 5)",
    "C13": "formatted_value is a pure function of (value, format record): no I/O, state or schedule (DESIGN.md section 5)",
    "C14": "date/duration rendering is a pure function of (value, format string): no I/O, state or schedule (DESIGN.md section 5)",
    "C18": "the tokenizer is a pure function of a string (DESIGN.md section 5)",
    "C20": "a pure function of the CSV text and flags through two command-line entry points; the only persistence hop in it is the one C01/C03 exercise; no schedule, history or fault in the statement (DESIGN.md section 5)",
}


def main():
    checks = []
    for pid, c in sorted(CLAIMED.items()):
        checks.append({
            "property_id": pid,
            "quick_cmd": f"./check {pid} --tier quick",
            "thorough_cmd": f"./check {pid} --tier thorough",
            "evidence_file": f"/verif/evidence/{pid}.json",
            "replay_cmd_template": f"./check {pid} --replay {{path}}",
            "engine": "dsim",
            "level_claimed": {"category": c["level"], "text": c["text"], "design_ref": c["design_ref"]},
            "level_note": TRUSTED,
            "technique": c["technique"],
        })
    na = [{"property_id": k, "reason": v} for k, v in sorted({**NOT_APPLICABLE, **PENDING}.items())]
    m = {
        "version": 1,
        "setup_cmd": "./setup.sh",
        "hooks": {
            "guard": "NUMBERS_PARSER_VERIF",
            "enable": "no hook in /repo is needed: every seam (io.open/builtins.open, os.listdir/os.scandir, zipfile.time, uuid.uuid1/uuid4, tempfile names, decimal context, TZ, logger level) is patched from outside at run time by dsim/world.py; the guard name is reserved and unused",
            "baseline_off_cmd": "cd /repo && /venv/bin/python -m pytest -ra -q -p no:cacheprovider --timeout=900 --continue-on-collection-errors",
            "source_commits": [],
            "add_only": True,
        },
        "engines": [{
            "name": "dsim",
            "path": "/verif/dsim",
            "serves_properties": sorted(CLAIMED),
            "kind_free_text": "deterministic simulator: seeded scheduler over total JSON operations, simulated disk with permanent and transient write faults/crash/at-rest corruption/relayout, simulated clock/uuid/directory order/temporary names, seeded ambient configuration, lock-step reference models, ddmin shrinker, explicit op-list replay files",
        }],
        "checks": checks,
        "not_applicable": na,
        "notes": "Exit codes: 0 held, 1 VIOLATION line printed, 2 harness error/timeout (never 0). Genuine defects found on the pinned tree were repaired with 'fix:' commits in /repo and are listed in /verif/known_findings.json.",
    }
    with open(os.path.join(HERE, "MANIFEST.json"), "w") as fh:
        json.dump(m, fh, indent=1)
    print("wrote MANIFEST.json:", len(checks), "checks,", len(na), "not applicable")


if __name__ == "__main__":
    main()
