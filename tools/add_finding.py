#!/venv/bin/python
"""Append an entry to known_findings.json.  usage: add_finding.py fixed <prop> <commit-subject-prefix> <what>  |  known <prop> <check_id> <key-json> <witness> <what>"""
import json, subprocess, sys
p = "/verif/known_findings.json"
kf = json.load(open(p))
mode = sys.argv[1]
if mode == "fixed":
    prop, prefix, what = sys.argv[2:5]
    log = subprocess.run(["git", "-C", "/repo", "log", "--format=%h %s"], capture_output=True, text=True).stdout.splitlines()
    commit = next(l.split(" ", 1)[0] for l in log if l.split(" ", 1)[1].startswith(prefix))
    kf["findings"].append({"status": "fixed", "property": prop, "commit": commit, "what": f"fixed: property={prop} {commit} {what}"})
else:
    prop, check_id, key, witness, what = sys.argv[2:7]
    kf["findings"].append({"status": "known", "property": prop, "check_id": check_id, "key": json.dumps(json.loads(key), sort_keys=True), "witness": witness, "what": what})
json.dump(kf, open(p, "w"), indent=1)
print(len(kf["findings"]), "findings")
