#!/bin/sh
# usage: tools/soak.sh "<seeds>" "<props>" <budget_s>   -- prints one line per (seed, property); non-zero exits are listed at the end
SEEDS=${1:-"1 2 3 4 5 6"}; PROPS=${2:-"C01 C02 C03 C06 C07 C11 C12 C15 C16 C17 C19"}; B=${3:-30}
BAD=""
for s in $SEEDS; do for p in $PROPS; do
  OUT=$(VERIF_SEED=$s ./check $p --budget $B 2>&1); rc=$?
  echo "seed=$s $p rc=$rc $(echo "$OUT" | grep '^\[dsim\] C' | tail -1)"
  if [ $rc -ne 0 ]; then BAD="$BAD $p@$s"; echo "$OUT" | grep -v "conda\|KNOWN-FINDING" | grep -A4 -E "VIOLATION|HARNESS" | head -24; fi
done; done
echo "SOAK DONE bad:$BAD"
