"""Soundness drill: a behaviour-preserving refactor (atomic save through a temporary file + os.replace; memoisation
removed from two hot lookups).  Every property still holds, so every check must stay at exit 0.
usage: python drills/atomic_save_no_memo.py <src-copy>   (edits the COPY in place)"""
import sys

root = sys.argv[1]
p = root + "/numbers_parser/iwork.py"
s = open(p).read()
old = '''            # OSError possible exception; allow it to propagate up
            zipf = ZipFile(filepath, "w")

            for filepath_in_zip, blob in file_store.items():
                if isinstance(blob, IWAFile):
                    zipf.writestr(filepath_in_zip, blob.to_buffer())
                else:
                    zipf.writestr(filepath_in_zip, blob)
            zipf.close()'''
new = '''            import os
            tmp_path = filepath.with_name(filepath.name + ".tmp-save")
            zipf = ZipFile(tmp_path, "w")

            for filepath_in_zip, blob in file_store.items():
                if isinstance(blob, IWAFile):
                    zipf.writestr(filepath_in_zip, blob.to_buffer())
                else:
                    zipf.writestr(filepath_in_zip, blob)
            zipf.close()
            os.replace(tmp_path, filepath)'''
assert old in s, "iwork.save changed: update the drill"
open(p, "w").write(s.replace(old, new))
p = root + "/numbers_parser/model.py"
s = open(p).read()
s = s.replace("    @cache(num_args=2)\n    def table_string(self", "    def table_string(self")
s = s.replace("    @cache(num_args=3)\n    def storage_buffer(self", "    def storage_buffer(self")
open(p, "w").write(s)
print("drill applied to", root)
