#!/bin/sh
# Offline setup: nothing is compiled or fetched. Verify the interpreter and imports the checks need.
set -e
cd "$(dirname "$0")"
mkdir -p evidence replays
PYTHONPATH=/repo/src:/verif /venv/bin/python - <<'PY'
import numbers_parser, snappy, google.protobuf, zipfile, plistlib
import dsim.world, dsim.sim, dsim.runner
print("setup ok: numbers_parser from", numbers_parser.__file__)
PY
