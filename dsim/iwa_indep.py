"""
Independent IWA container codec (chunk framing, snappy, varint, ArchiveInfo, message slicing).

Written from the format notes in /repo/docs, NOT from numbers_parser/iwafile.py; the only thing
taken from the repository is the *generated* protobuf schema (TSP.ArchiveInfo and the type-id ->
message class registry), used as schemas.  Nothing in here is used to judge itself: it builds
test inputs (relayout, member faults) and feeds the package validator.
"""

from __future__ import annotations

import snappy

MAX_CHUNK = 65536


class IwaFormatError(Exception):
    pass


# ---- chunk framing --------------------------------------------------------------------------------


def is_framed(data: bytes) -> bool:
    """A member is an IWA stream iff it is a sequence of [0x00, len24, payload] chunks covering it exactly."""
    pos, n = 0, len(data)
    if n == 0:
        return False
    while pos < n:
        if n - pos < 4 or data[pos] != 0:
            return False
        ln = data[pos + 1] | (data[pos + 2] << 8) | (data[pos + 3] << 16)
        pos += 4 + ln
    return pos == n


def split_chunks(data: bytes) -> list[bytes]:
    """Raw (still compressed) payloads of every chunk."""
    out, pos, n = [], 0, len(data)
    while pos < n:
        if n - pos < 4:
            raise IwaFormatError("truncated chunk header")
        if data[pos] != 0:
            raise IwaFormatError(f"chunk marker {data[pos]:#x}")
        ln = data[pos + 1] | (data[pos + 2] << 8) | (data[pos + 3] << 16)
        if pos + 4 + ln > n:
            raise IwaFormatError("chunk length past end of member")
        out.append(data[pos + 4 : pos + 4 + ln])
        pos += 4 + ln
    return out


def unframe(data: bytes) -> bytes:
    """The uncompressed archive stream of a member."""
    parts = []
    for payload in split_chunks(data):
        try:
            parts.append(snappy.uncompress(payload))
        except Exception:  # noqa: BLE001  stored (uncompressed) chunk
            parts.append(payload)
    return b"".join(parts)


def frame(raw: bytes, sizes=None, compress=True, max_chunk=MAX_CHUNK) -> bytes:
    """Cut ``raw`` into chunks of the given uncompressed sizes (cycled), each <= max_chunk (64 KiB unless asked:
    files written by Numbers occasionally carry larger chunks, e.g. 77 KB compressed in issue-18; the length field has 24 bits)."""
    out = []
    pos, i = 0, 0
    sizes = sizes or [MAX_CHUNK]
    while pos < len(raw):
        sz = max(1, min(max_chunk, sizes[i % len(sizes)]))
        i += 1
        piece = raw[pos : pos + sz]
        pos += sz
        payload = snappy.compress(piece) if compress else piece
        if len(payload) >= 1 << 24:
            raise IwaFormatError("chunk too long")
        out.append(b"\x00" + len(payload).to_bytes(3, "little") + payload)
    return b"".join(out)


# ---- archive stream ---------------------------------------------------------------------------------


def read_varint(buf: bytes, pos: int):
    result = shift = 0
    while True:
        if pos >= len(buf):
            raise IwaFormatError("truncated varint")
        b = buf[pos]
        pos += 1
        result |= (b & 0x7F) << shift
        if not b & 0x80:
            return result, pos
        shift += 7
        if shift > 63:
            raise IwaFormatError("varint too long")


def write_varint(n: int) -> bytes:
    out = bytearray()
    while True:
        b = n & 0x7F
        n >>= 7
        if n:
            out.append(b | 0x80)
        else:
            out.append(b)
            return bytes(out)


class Segment:
    """One archive segment: an ArchiveInfo header and the bytes of each of its messages."""

    __slots__ = ("info", "payloads")

    def __init__(self, info, payloads) -> None:
        self.info = info
        self.payloads = payloads

    @property
    def identifier(self) -> int:
        return self.info.identifier


def _archive_info_cls():
    from numbers_parser.generated.TSPArchiveMessages_pb2 import ArchiveInfo

    return ArchiveInfo


def parse_stream(raw: bytes) -> list[Segment]:
    cls = _archive_info_cls()
    segs, pos = [], 0
    while pos < len(raw):
        ln, pos = read_varint(raw, pos)
        if pos + ln > len(raw):
            raise IwaFormatError("ArchiveInfo past end of stream")
        info = cls()
        info.ParseFromString(raw[pos : pos + ln])
        pos += ln
        payloads = []
        for mi in info.message_infos:
            if pos + mi.length > len(raw):
                raise IwaFormatError("message past end of stream")
            payloads.append(raw[pos : pos + mi.length])
            pos += mi.length
        segs.append(Segment(info, payloads))
    return segs


def build_stream(segs: list[Segment]) -> bytes:
    out = []
    for s in segs:
        for mi, p in zip(s.info.message_infos, s.payloads):
            mi.length = len(p)
        hdr = s.info.SerializeToString()
        out.append(write_varint(len(hdr)))
        out.append(hdr)
        out.extend(s.payloads)
    return b"".join(out)


def message_class(type_id: int):
    from numbers_parser.generated.mapping import ID_NAME_MAP

    return ID_NAME_MAP.get(type_id)


def decode_first(seg: Segment):
    """The first message of a segment decoded with the generated schema (None if type unknown)."""
    if not seg.payloads:
        return None
    cls = message_class(seg.info.message_infos[0].type)
    if cls is None:
        return None
    msg = cls()
    msg.ParseFromString(seg.payloads[0])
    return msg


def references_in(msg) -> list[int]:
    """Every TSP.Reference identifier reachable inside a decoded message (own walker)."""
    out = []
    stack = [msg]
    while stack:
        m = stack.pop()
        desc = getattr(m, "DESCRIPTOR", None)
        if desc is None:
            continue
        if desc.full_name == "TSP.Reference":
            out.append(m.identifier)
            continue
        for fd, val in m.ListFields():
            if fd.type != fd.TYPE_MESSAGE:
                continue
            if fd.is_repeated:
                stack.extend(val)
            else:
                stack.append(val)
    return out
