"""Independent object-level view of a document: container -> IWA members -> segments -> messages."""

from __future__ import annotations

from dsim import iwa_indep as iwa
from dsim.container import Container, read_container


class Obj:
    __slots__ = ("ident", "member", "seg", "type_id", "_msg", "dirty")

    def __init__(self, ident, member, seg, type_id) -> None:
        self.ident = ident
        self.member = member
        self.seg = seg
        self.type_id = type_id
        self._msg = None
        self.dirty = False

    @property
    def type_name(self) -> str:
        cls = iwa.message_class(self.type_id)
        return cls.DESCRIPTOR.full_name if cls is not None else f"?{self.type_id}"

    @property
    def msg(self):
        if self._msg is None:
            self._msg = iwa.decode_first(self.seg)
        return self._msg

    def commit(self) -> None:
        """Re-encode the (mutated) first message back into the segment."""
        if self._msg is not None:
            self.seg.payloads[0] = self._msg.SerializeToString()
            self.dirty = True


class Package:
    def __init__(self, container: Container) -> None:
        self.container = container
        self.streams: dict[str, list] = {}  # member name -> [Segment]
        self.opaque: set[str] = set()  # .iwa members that are not well-framed streams (kept as blobs)
        self.objects: dict[int, Obj] = {}
        self.duplicates: list[int] = []
        for name in container.iwa_names():
            data = container.members[name]
            if not iwa.is_framed(data):
                self.opaque.add(name)
                continue
            segs = iwa.parse_stream(iwa.unframe(data))
            self.streams[name] = segs
            for seg in segs:
                tid = seg.info.message_infos[0].type if seg.info.message_infos else 0
                o = Obj(seg.identifier, name, seg, tid)
                if seg.identifier in self.objects:
                    self.duplicates.append(seg.identifier)
                self.objects[seg.identifier] = o

    @classmethod
    def read(cls, path: str) -> Package:
        return cls(read_container(path))

    def by_type(self, full_name: str):
        return [o for o in self.objects.values() if o.type_name == full_name]

    def rebuild_member(self, name: str, sizes=None, compress=True, max_chunk=iwa.MAX_CHUNK) -> None:
        self.container.members[name] = iwa.frame(iwa.build_stream(self.streams[name]), sizes, compress, max_chunk)

    # ---- convenient navigation ------------------------------------------------------------------
    def metadata(self):
        m = self.by_type("TSP.PackageMetadata")
        return m[0] if m else None

    def table_models(self):
        return self.by_type("TST.TableModelArchive")

    def tiles_of(self, table_obj):
        """[(tile index, Obj)] in declared order."""
        out = []
        ts = table_obj.msg.base_data_store.tiles
        for t in ts.tiles:
            o = self.objects.get(t.tile.identifier)
            out.append((t.tileid, o))
        return out, (ts.tile_size or 256)

    def datalists_of(self, table_obj):
        bds = table_obj.msg.base_data_store
        out = {}
        for fname in ("stringTable", "styleTable", "formula_table", "format_table", "rich_text_table", "control_cell_spec_table",
                      "formulaErrorTable", "format_table_pre_bnc", "multipleChoiceListFormatTable", "conditionalstyletable",
                      "commentStorageTable", "importWarningSetTable"):
            if bds.HasField(fname):
                o = self.objects.get(getattr(bds, fname).identifier)
                if o is not None and o.type_name == "TST.TableDataList":
                    out[fname] = o
        return out

    def row_header_buckets(self, table_obj):
        return [self.objects.get(r.identifier) for r in table_obj.msg.base_data_store.rowHeaders.buckets]
