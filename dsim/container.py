"""
Independent reader/writer for the three container forms of a .numbers document:
single zip file, package folder with Index.zip, package folder with a loose Index/ tree.
Uses zipfile and the real file system directly (never numbers_parser.iwork).
"""

from __future__ import annotations

import io
import os
import shutil
import zipfile

from dsim.world import _REAL_OPEN

FIXED_DATE = (2020, 1, 1, 0, 0, 0)


class Container:
    def __init__(self, members: dict[str, bytes], form: str, zip_order=None, dir_entries=None) -> None:
        self.members = members  # logical name (as the library keys its file store) -> bytes
        self.form = form  # "file" | "pkgzip" | "pkgloose"
        self.zip_order = zip_order or list(members)
        self.dir_entries = dir_entries or []

    def iwa_names(self) -> list[str]:
        return [n for n in self.members if n.endswith(".iwa")]


def _read_zip(data_or_path) -> tuple[dict, list]:
    members, order = {}, []
    with zipfile.ZipFile(data_or_path) as z:
        for info in z.infolist():
            members[info.filename] = z.read(info.filename)
            order.append(info.filename)
    return members, order


def read_container(path: str) -> Container:
    if os.path.isdir(path):
        members, order = {}, []
        form = "pkgloose"
        for dirpath, dirnames, filenames in os.walk(path):
            dirnames.sort()
            for fn in sorted(filenames):
                full = os.path.join(dirpath, fn)
                rel = os.path.relpath(full, path).replace(os.sep, "/")
                with _REAL_OPEN(full, "rb") as fh:
                    data = fh.read()
                if rel.lower() == "index.zip":
                    form = "pkgzip"
                    zm, zo = _read_zip(io.BytesIO(data))
                    for n in zo:
                        members[n] = zm[n]
                        order.append(n)
                else:
                    members[rel] = data
                    order.append(rel)
        dirs = [n for n in order if n.endswith("/")]
        return Container({k: v for k, v in members.items() if not k.endswith("/")}, form, [n for n in order if not n.endswith("/")], dirs)
    zm, zo = _read_zip(path)
    # some archives wrap the document in one folder ("name.numbers/..."): logical names are relative to it
    tops = {n.split("/", 1)[0] for n in zo}
    if len(tops) == 1 and next(iter(tops)).endswith(".numbers") and all("/" in n for n in zo):
        pre = next(iter(tops)) + "/"
        zm = {n[len(pre):]: v for n, v in zm.items() if n != pre}
        zo = [n[len(pre):] for n in zo if n != pre]
    flat, order = {}, []
    for n in zo:
        if n.lower().endswith("index.zip"):
            im, io_ = _read_zip(io.BytesIO(zm[n]))
            for k in io_:
                flat[k] = im[k]
                order.append(k)
        else:
            flat[n] = zm[n]
            order.append(n)
    dirs = [n for n in order if n.endswith("/")]
    return Container({k: v for k, v in flat.items() if not k.endswith("/")}, "file", [n for n in order if not n.endswith("/")], dirs)


def _write_zip(target, names, members, methods=None) -> None:
    with zipfile.ZipFile(target, "w") as z:
        for n in names:
            zi = zipfile.ZipInfo(n, date_time=FIXED_DATE)
            m = (methods or {}).get(n, zipfile.ZIP_STORED)
            zi.compress_type = m
            z.writestr(zi, members[n])


def write_container(path: str, c: Container, form: str | None = None, order=None, methods=None) -> None:
    """Write ``c`` at ``path`` (replacing what is there) in the requested form and member order."""
    form = form or c.form
    order = order or c.zip_order
    if os.path.isdir(path):
        shutil.rmtree(path)
    elif os.path.exists(path):
        os.remove(path)
    if form == "file":
        buf = io.BytesIO()
        _write_zip(buf, order, c.members, methods)
        with _REAL_OPEN(path, "wb") as fh:
            fh.write(buf.getvalue())
        return
    os.mkdir(path)
    iwa = [n for n in order if n.startswith("Index/")]
    loose = [n for n in order if not n.startswith("Index/")]
    if form == "pkgzip":
        buf = io.BytesIO()
        _write_zip(buf, iwa, c.members, methods)
        with _REAL_OPEN(os.path.join(path, "Index.zip"), "wb") as fh:
            fh.write(buf.getvalue())
    else:
        loose = order
    for n in loose:
        full = os.path.join(path, n)
        os.makedirs(os.path.dirname(full), exist_ok=True)
        with _REAL_OPEN(full, "wb") as fh:
            fh.write(c.members[n])
