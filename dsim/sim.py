"""
The executor: runs an explicit operation list against the real library (inside a World)
and against the reference models in lock-step, evaluating oracles after every operation.

``Sim(world=None)`` is the model-only mode the generators use to know what state an
operation will meet; the same handlers run, the real halves are skipped.
"""

from __future__ import annotations

import errno
import hashlib
import json
import os
import sys
import traceback
import warnings

from dsim import values as V
from dsim.models import DocM, Opaque, SheetM, TableM, fresh_name, new_doc_model
from dsim.world import HarnessError, SimCrash, WritePlan

MAX_ROW = 1_000_000
MAX_COL = 1000
CELL_CAP = 1_000_000
BIG_DOC_CELLS = 6000
MAX_DOCS = 3
FILE_SLOTS = ["f0", "f1", "f2"]
PKG_SLOTS = ["p0", "p1"]
ALL_SLOTS = FILE_SLOTS + PKG_SLOTS
FIXTURE_DIR = "/repo/tests/data"
LIB_ERRORS = ("FileError", "FileFormatError", "UnsupportedError")


class Violation(Exception):
    def __init__(self, prop: str, check_id: str, key, detail: str) -> None:
        super().__init__(f"{check_id} {key}: {detail}")
        self.prop = prop
        self.check_id = check_id
        self.key = key if isinstance(key, str) else json.dumps(key, sort_keys=True)
        self.detail = detail
        self.step = None

    def ident(self) -> tuple[str, str]:
        return (self.check_id, self.key)


class DocState:
    def __init__(self, doc, model: DocM) -> None:
        self.doc = doc
        self.model = model
        self.saves = 0
        self.failed_saves = 0


class Slot:
    def __init__(self, name: str) -> None:
        self.name = name
        self.form = "package" if name.startswith("p") else "file"
        self.status = "absent"  # absent | good | torn | corrupt
        self.model: DocM | None = None
        self.size = 0
        self.relaid = False


def lib_frame(exc: BaseException):
    """Innermost frame of the traceback that belongs to numbers_parser: (file, function)."""
    found = None
    for fs in traceback.extract_tb(exc.__traceback__):
        fn = fs.filename.replace("\\", "/")
        if "/numbers_parser/" in fn:
            found = (os.path.basename(fn), fs.name)
    return found


def a1(r: int, c: int, abs_=False) -> str:
    name = ""
    n = c + 1
    while n:
        n, rem = divmod(n - 1, 26)
        name = chr(65 + rem) + name
    if abs_:
        return f"${name}${r + 1}"
    return f"{name}{r + 1}"


def parse_a1(ref: str):
    ref = ref.replace("$", "")
    i = 0
    col = 0
    while i < len(ref) and ref[i].isalpha():
        col = col * 26 + (ord(ref[i].upper()) - 64)
        i += 1
    return int(ref[i:]) - 1, col - 1


def parse_a1_range(ref: str):
    if ":" in ref:
        a, b = ref.split(":")
    else:
        a = b = ref
    r0, c0 = parse_a1(a)
    r1, c1 = parse_a1(b)
    return (r0, c0, r1, c1)


def a1_range(r0, c0, r1, c1) -> str:
    if (r0, c0) == (r1, c1):
        return a1(r0, c0)
    return f"{a1(r0, c0)}:{a1(r1, c1)}"


OPS = {}


def op(name):
    def deco(fn):
        OPS[name] = fn
        return fn

    return deco


class Sim:
    def __init__(self, world=None, cfg: dict | None = None) -> None:
        self.world = world
        self.real = world is not None
        self.cfg = cfg or {}
        self.prop = self.cfg.get("property", "C03")
        self.docs: list[DocState] = []
        self.slots = {n: Slot(n) for n in ALL_SLOTS}
        self.log: list = []
        self.step_no = -1
        self.last_save_size = 95_000
        self.faults_pending_liveness = False
        self.stats = {
            "ops": {},
            "outcomes": {},
            "saves_ok": 0,
            "saves_failed": 0,
            "saves_crashed": 0,
            "restarts_ok": 0,
            "restart_after_torn": 0,
            "torn_open_liberr": 0,
            "torn_opened": 0,
            "save_after_failed_save": 0,
            "save_over_existing": 0,
            "grow_across_tile": 0,
            "checks": 0,
            "cells_compared": 0,
            "warnings": {},
            "probes": {},
        }
        self.aspects = set(self.cfg.get("aspects", ["grid", "names", "merges"]))
        self.extra_checks = []  # callables(sim) run after every op (profiles add these)
        self.save_hooks = []  # callables(sim, ds, slot, path) run after every successful save
        self.doc_hooks = []  # callables(sim, ds, source_path or None) run when a document object comes to life
        self.observed = set()
        self.touched = None
        self._prev_op = "^"
        self.abstract_states = set()
        self.grid_prefix = self.cfg.get("grid_prefix", "C03")

    # ---- helpers ---------------------------------------------------------------------------------
    def probe(self, name: str, n: int = 1) -> None:
        p = self.stats["probes"]
        p[name] = p.get(name, 0) + n

    def violation(self, check_id: str, key, detail: str, prop: str | None = None):
        if isinstance(key, dict) and key.get("legacy_merge_records_moved"):
            # one identity for one root cause (see known_findings.json)
            detail = f"[{check_id} {json.dumps(key, sort_keys=True)}] {detail}"
            check_id, key = "C12.legacy_merge_records_not_moved", {"storage": "formula-owner merge records of a shipped document"}
        v = Violation(prop or check_id.split(".")[0], check_id, key, detail)
        v.step = self.step_no
        raise v

    def doc_created(self, ds, source_path) -> None:
        if self.real:
            for fn in self.doc_hooks:
                fn(self, ds, source_path)

    def pick_doc(self, d) -> DocState | None:
        if not self.docs:
            return None
        self.touched = self.docs[d % len(self.docs)]
        return self.touched

    def pick_table(self, ds: DocState, s: int, t: int):
        m = ds.model
        si = s % len(m.sheets)
        sm = m.sheets[si]
        ti = t % len(sm.tables)
        tm = sm.tables[ti]
        if tm.pivot:
            # edits to a pivot table are not written by the library (documented, warned): not generated.
            # fall back to the first non-pivot table of the sheet, if any
            alt = [k for k, t2 in enumerate(sm.tables) if not t2.pivot]
            if alt:
                ti = alt[t % len(alt)]
                tm = sm.tables[ti]
                self.probe("pivot_table_avoided")
        table = None
        if self.real:
            by_name = self.cfg.get("by_name_every", 0) and (self.step_no % self.cfg["by_name_every"] == 0)
            snames = [x.name for x in m.sheets]
            tnames = [x.name for x in sm.tables]
            if by_name and snames.count(sm.name) == 1 and tnames.count(tm.name) == 1:
                # the same target addressed the way users usually do it: by sheet and table name
                table = ds.doc.sheets[sm.name].tables[tm.name]
                self.probe("target_addressed_by_name")
            else:
                table = ds.doc.sheets[si].tables[ti]
        return si, ti, tm, table

    def slot_path(self, slot: str) -> str:
        return self.world.path(slot + ".numbers")

    # ---- running -----------------------------------------------------------------------------------
    def run(self, ops: list) -> None:
        for i, o in enumerate(ops):
            self.step(i, o)
        self.finish()

    def step(self, i: int, o: dict) -> None:
        self.step_no = i
        name = o["op"]
        fn = OPS.get(name)
        if fn is None:
            msg = f"unknown op {name}"
            raise HarnessError(msg)
        self.stats["ops"][name] = self.stats["ops"].get(name, 0) + 1
        bg = self.stats.setdefault("bigrams", {})
        k = f"{self._prev_op}>{name}"
        bg[k] = bg.get(k, 0) + 1
        self._prev_op = name
        if self.real:
            self.world.set_step(o.get("id", i))
        try:
            outcome = fn(self, o)
        except (Violation, HarnessError, SimCrash):
            raise
        except Exception as e:  # noqa: BLE001
            fr = lib_frame(e)
            last = traceback.extract_tb(e.__traceback__)[-1]
            if fr is None or "/dsim/" in last.filename.replace("\\", "/"):
                raise  # the harness's own bug
            self.violation(f"{self.prop}.op_raised", {"op": name, "exc": type(e).__name__, "in": f"{fr[0]}:{fr[1]}"},
                           f"{name} {json.dumps({k: v for k, v in o.items() if k != 'v'}, default=str)[:300]} raised {type(e).__name__}: {e}\n{_tb(e)}")
        self.stats["outcomes"][outcome] = self.stats["outcomes"].get(outcome, 0) + 1
        self.log.append([i, name, outcome])
        if self.real:
            self.check_all(after=name)
            self.abstract_states.add(self.abstract_state(name, outcome))

    def finish(self) -> None:
        pass

    def abstract_state(self, op_name: str, outcome: str) -> int:
        """A coarse fingerprint of where the run is: used only to measure reach (distinct_abstract_states)."""
        def bucket(n):
            return 0 if n == 0 else 1 if n == 1 else 2 if n <= 3 else 3 if n <= 12 else 4 if n <= 255 else 5 if n <= 257 else 6
        parts = [self.cfg.get("profile", ""), op_name, outcome, len(self.docs)]
        for ds in self.docs[:3]:
            m = ds.model
            parts.append(len(m.sheets))
            for _si, _ti, t in list(m.tables())[:4]:
                nonempty = sum(1 for row in t.rows[:40] for v in row[:20] if v is not None)
                parts.append((bucket(t.nrows), bucket(t.ncols), bucket(nonempty), bucket(len(t.merges)), bucket(len(t.hedge) + len(t.vedge)), bucket(len(t.styles)), t.hdr_r, t.hdr_c))
            parts.append((ds.saves > 0, ds.failed_saves > 0))
        parts.append(tuple(sorted((n, sl.status) for n, sl in self.slots.items() if sl.status != "absent")))
        return hash_str(repr(parts))

    def digest(self) -> str:
        return hashlib.sha256(json.dumps(self.log, sort_keys=True, default=str).encode()).hexdigest()

    # ---- expectation helper ----------------------------------------------------------------------------
    def expect_raises(self, check_id: str, key, fn, exc_names=("IndexError",)):
        """Run fn; it must raise one of exc_names.  Returns the exception class name."""
        try:
            fn()
        except Exception as e:  # noqa: BLE001
            if type(e).__name__ in exc_names:
                return type(e).__name__
            self.violation(check_id, key, f"raised {type(e).__name__}: {e} instead of {'/'.join(exc_names)}")
        self.violation(check_id, key, f"did not raise {'/'.join(exc_names)}")
        return None

    # ---- the continuous invariant ----------------------------------------------------------------------
    def check_all(self, after: str = "") -> None:
        self.stats["checks"] += 1
        full = after in ("save", "restart") or self.step_no % 8 == 0
        for di, ds in enumerate(self.docs):
            # documents holding very large tables are compared when they were the target of
            # the operation, at every save/restart and every 8th step; small ones after every op
            if not full and ds is not self.touched and ds.model.ncells() > BIG_DOC_CELLS:
                self.stats["big_doc_checks_deferred"] = self.stats.get("big_doc_checks_deferred", 0) + 1
                continue
            self.check_doc(ds.doc, ds.model, where=f"doc{di}", after=after, reopened=False)
        for fn in self.extra_checks:
            fn(self)

    def check_doc(self, doc, m: DocM, where: str, after: str, reopened: bool) -> None:
        P = "C03"
        tag = "reopen_equals_model" if reopened else None
        sheets = doc.sheets
        if len(sheets) != len(m.sheets):
            self.violation(f"C19.{'reloaded_order' if reopened else 'order'}", {"what": "sheet_count", "after": after},
                           f"{where}: {len(sheets)} sheets, model has {len(m.sheets)}")
        for si, sm in enumerate(m.sheets):
            sheet = sheets[si]
            if sheet.name != sm.name:
                self.violation(f"C19.{'reloaded_order' if reopened else 'order'}", {"what": "sheet_name", "after": after},
                               f"{where} sheet {si}: name {sheet.name!r}, model {sm.name!r}")
            tables = sheet.tables
            if len(tables) != len(sm.tables):
                self.violation(f"C19.{'reloaded_order' if reopened else 'order'}", {"what": "table_count", "after": after},
                               f"{where} sheet {si}: {len(tables)} tables, model has {len(sm.tables)}")
            for ti, tm in enumerate(sm.tables):
                table = tables[ti]
                if table.name != tm.name:
                    self.violation(f"C19.{'reloaded_order' if reopened else 'order'}", {"what": "table_name", "after": after},
                                   f"{where} table {si}/{ti}: name {table.name!r}, model {tm.name!r}")
                self.check_table(table, tm, f"{where} table {si}/{ti} {tm.name!r}", after, reopened)

    def check_table(self, table, tm: TableM, where: str, after: str, reopened: bool) -> None:
        sfx = "reopen_equals_model" if reopened else None
        P = self.grid_prefix
        data = table.rows()
        nr, nc = tm.nrows, tm.ncols
        if table.num_rows != nr or table.num_cols != nc or len(data) != nr or any(len(r) != nc for r in data):
            got_cols = sorted({len(r) for r in data})
            self.violation(f"{P}.{sfx or 'dims'}", {"what": "dims", "after": after},
                           f"{where}: library {table.num_rows}x{table.num_cols} (grid {len(data)} rows, widths {got_cols}); model {nr}x{nc}")
        merges_on = "merges" in self.aspects and not tm.merge_unspecified
        placeholder = {}
        anchors = {}
        if "merges" in self.aspects:
            for m in tm.merges:
                anchors[(m[0], m[1])] = m
                for r in range(m[0], m[2] + 1):
                    for c in range(m[1], m[3] + 1):
                        if (r, c) != (m[0], m[1]):
                            placeholder[(r, c)] = m
        self.stats["cells_compared"] += nr * nc
        for r in range(nr):
            mrow = tm.rows[r]
            drow = data[r]
            for c in range(nc):
                cell = drow[c]
                exp = mrow[c]
                cls = type(cell).__name__
                if cell.row != r or cell.col != c:
                    self.violation(f"{P}.{sfx or 'positions'}", {"what": "position", "after": after},
                                   f"{where}: cell at [{r},{c}] reports ({cell.row},{cell.col})")
                if merges_on and (r, c) in placeholder:
                    self.check_placeholder(cell, placeholder[(r, c)], where, r, c, after, reopened, tm)
                    continue
                if "merges" in self.aspects and tm.merge_unspecified:
                    # self-consistency only: what the rectangle should become is not specified
                    if cls == "MergedCell":
                        continue
                if isinstance(exp, Opaque) and exp.cls == "ErrorCell" and reopened and cls == "EmptyCell":
                    # the documented exception: formula-error cells are not written (the library warns)
                    mrow[c] = None
                    self.probe("error_cell_not_written_excused")
                    continue
                if isinstance(exp, Opaque):
                    ok = cls == exp.cls and _opaque_eq(exp.value, cell.value)
                    want = exp.cls
                else:
                    want = V.kind_of(exp)
                    ok = cls == want and V.typed_eq(exp, cell.value)
                if not ok:
                    kind = "class" if cls != want else "value"
                    vkey = {"what": kind, "want": want, "got": cls, "after": after}
                    if "merges" in self.aspects and (cls == "MergedCell" or want == "MergedCell"):
                        vkey = self.mkey(tm, vkey, reopened)
                    self.violation(f"{P}.{sfx or 'values'}", vkey,
                                   f"{where} [{r},{c}]: library {cls}({V.short(cell.value)}), model {want}({V.short(exp.value if isinstance(exp, Opaque) else exp)})")
                if merges_on:
                    self.check_anchor(cell, anchors.get((r, c)), where, r, c, after, reopened, tm)
        if merges_on:
            want = sorted(a1_range(*m) for m in tm.merges)
            got = table.merge_ranges
            if got != want:
                self.violation(f"C12.{'ranges_reloaded' if reopened else 'ranges'}", self.mkey(tm, {"after": after}, reopened),
                               f"{where}: merge_ranges {got}, model {want}")

    def check_placeholder(self, cell, m, where, r, c, after, reopened, tm=None) -> None:
        cls = type(cell).__name__
        sfx = "_reloaded" if reopened else ""
        if cls != "MergedCell":
            self.violation(f"C12.placeholders{sfx}", self.mkey(tm, {"what": "class", "after": after}, reopened),
                           f"{where} [{r},{c}]: inside merge {a1_range(*m)} but is {cls}({V.short(cell.value)})")
        if cell.value is not None:
            self.violation(f"C12.placeholders{sfx}", self.mkey(tm, {"what": "value", "after": after}, reopened),
                           f"{where} [{r},{c}]: placeholder has value {V.short(cell.value)}")
        rect = getattr(cell, "rect", None)
        rng = getattr(cell, "merge_range", None)
        if rect is None or tuple(rect) != tuple(m) or rng != a1_range(*m):
            self.violation(f"C12.placeholders{sfx}", self.mkey(tm, {"what": "rect", "after": after}, reopened),
                           f"{where} [{r},{c}]: placeholder reports rect {rect} / {rng}, expected {m} / {a1_range(*m)}")
        if getattr(cell, "is_merged", None):
            self.violation(f"C12.placeholders{sfx}", self.mkey(tm, {"what": "is_merged", "after": after}, reopened),
                           f"{where} [{r},{c}]: placeholder reports is_merged=True")

    def check_anchor(self, cell, m, where, r, c, after, reopened, tm=None) -> None:
        sfx = "_reloaded" if reopened else ""
        if m is not None:
            size = (m[2] - m[0] + 1, m[3] - m[1] + 1)
            if not cell.is_merged or tuple(cell.size) != size:
                self.violation(f"C12.anchor{sfx}", self.mkey(tm, {"after": after}, reopened),
                               f"{where} [{r},{c}]: anchor of {a1_range(*m)} reports is_merged={cell.is_merged} size={cell.size}")
        else:
            if cell.is_merged or type(cell).__name__ == "MergedCell" or tuple(cell.size or ()) != (1, 1):
                self.violation(f"C12.outside_untouched{sfx}", self.mkey(tm, {"after": after}, reopened),
                               f"{where} [{r},{c}]: not part of any merge but is_merged={cell.is_merged} size={cell.size} class={type(cell).__name__}")

    @staticmethod
    def mkey(tm, key: dict, reopened: bool = True) -> dict:
        """Tag merge findings on tables whose merges came from a shipped document and were then
        moved by a structural edit (their storage in formula-owner records is a known finding)."""
        if tm is not None and tm.legacy_merges and tm.struct_edited and (reopened or getattr(tm, "legacy_reloaded", False)):
            key = dict(key)
            key["legacy_merge_records_moved"] = True
        return key

    def adopt_merges(self, tm: TableM, table) -> None:
        """
        After an insertion inside a rectangle or a deletion cutting one, what the rectangle should
        become is not specified: adopt what the library now reports (merge_ranges) as the model's
        rectangles and hold the library to it from here on (anchor, placeholders, outside cells,
        save/reopen).  Values under new placeholders are gone by definition.
        """
        if not (self.real and tm.merge_unspecified):
            return
        rects = []
        for ref in table.merge_ranges:
            rects.append(parse_a1_range(ref))
        ok = all(0 <= r0 <= r1 < tm.nrows and 0 <= c0 <= c1 < tm.ncols for r0, c0, r1, c1 in rects)
        for i, x in enumerate(rects):
            for y in rects[i + 1 :]:
                if x[0] <= y[2] and y[0] <= x[2] and x[1] <= y[3] and y[1] <= x[3]:
                    ok = False
        if not ok:
            self.violation("C12.ranges", {"what": "inconsistent_after_cut"}, f"merge_ranges {table.merge_ranges} overlap or leave the {tm.nrows}x{tm.ncols} table")
        tm.merges = rects
        for r0, c0, r1, c1 in rects:
            for r in range(r0, r1 + 1):
                for c in range(c0, c1 + 1):
                    if (r, c) != (r0, c0):
                        tm.rows[r][c] = None
        tm.merge_unspecified = False
        self.probe("merge_rect_adopted_after_cut_or_inner_insert")

    # ---- building a model from a loaded document ------------------------------------------------------
    def model_from_doc(self, doc, source) -> DocM:
        m = DocM()
        m.source = source
        for sheet in doc.sheets:
            sm = SheetM(sheet.name)
            for table in sheet.tables:
                tm = TableM(table.name, 0, 0, table.num_header_rows, table.num_header_cols)
                # what a loaded table looks like (strokes, styles) and whether it owns a real caption object or the
                # stand-in of a table that never had one is not known to the model
                tm.opaque_look = True
                tm.caption_real = False
                try:
                    # the one documented exception: the library warns that it does not write pivot tables
                    tm.pivot = bool(doc._model.is_a_pivot_table(table._table_id))
                except Exception:  # noqa: BLE001
                    tm.pivot = False
                rows = []
                for r, drow in enumerate(table.rows()):
                    row = []
                    for c, cell in enumerate(drow):
                        cls = type(cell).__name__
                        v = cell.value
                        if cls == "MergedCell" and "merges" not in self.aspects:
                            row.append(Opaque(cls, None))
                        elif cls in ("EmptyCell", "MergedCell"):
                            row.append(None)
                        elif cls in ("TextCell", "BoolCell", "NumberCell", "DateCell", "DurationCell") and V.CLASS_FOR.get(type(v)) == cls:
                            row.append(v)
                        else:
                            row.append(Opaque(cls, v))
                        if cell.is_merged:
                            tm.merges.append((r, c, r + cell.size[0] - 1, c + cell.size[1] - 1))
                    rows.append(row)
                tm.rows = rows
                if tm.merges and isinstance(source, str) and source.endswith(".numbers") and not source[:-8] in ALL_SLOTS:
                    tm.legacy_merges = True
                sm.tables.append(tm)
            m.sheets.append(sm)
        return m

    # ---- opening with C17's oracle --------------------------------------------------------------------
    def open_classified(self, path: str, context: dict):
        """Document(path) -> ("opened", doc) | ("liberr", name) ; escapes are C17 violations."""
        from numbers_parser import Document

        try:
            doc = Document(path)
        except Exception as e:  # noqa: BLE001
            name = type(e).__name__
            if name in LIB_ERRORS:
                return ("liberr", name)
            fr = lib_frame(e)
            where = fr[0] if fr else "?"
            # container loading = unzipping, un-framing, decoding and the object store the archives are loaded into
            # (a lookup of an object whose archive could not be un-framed surfaces in ObjectStore.__getitem__)
            container = where in ("iwork.py", "iwafile.py", "containers.py")
            if container:
                key = {"exc": name, "in": f"{fr[0]}:{fr[1]}"}
                self.violation("C17.escape", key, f"opening {context}: {name}: {e} escaped from {fr[0]}:{fr[1]}")
            # an archive that decodes (possibly into the wrong message type) but no longer makes sense to the model
            # is beyond "loading the container": counted, not judged
            self.probe("c17_escape_outside_container_" + name)
            self.probe(f"c17_outside_{name}_{fr[0] if fr else '?'}:{fr[1] if fr else '?'}")
            return ("escape_outside", name)
        return ("opened", doc)


def _opaque_eq(a, b) -> bool:
    if isinstance(a, float) and isinstance(b, float) and a != a and b != b:
        return True
    return type(a) is type(b) and a == b


# =================================================================================================
# Operations.  Every handler is total: defined in every state, degrading to "skip".


@op("new_doc")
def op_new_doc(sim: Sim, a) -> str:
    rows, cols = max(1, a.get("rows", 12)), max(1, a.get("cols", 8))
    hr = min(a.get("hr", 1), rows, 5)
    hc = min(a.get("hc", 1), cols, 5)
    sn, tn = a.get("sheet", "Sheet 1"), a.get("table", "Table 1")
    model = new_doc_model(rows, cols, hr, hc, sn, tn)
    doc = None
    if sim.real:
        from numbers_parser import Document

        doc = Document(sheet_name=sn, table_name=tn, num_header_rows=hr, num_header_cols=hc, num_rows=rows, num_cols=cols)
    ds = DocState(doc, model)
    sim.doc_created(ds, None)
    if len(sim.docs) >= MAX_DOCS:
        sim.docs[a.get("d", 0) % len(sim.docs)] = ds
    else:
        sim.docs.append(ds)
    return "ok"


@op("open_fixture")
def op_open_fixture(sim: Sim, a) -> str:
    name = a["name"]
    path = os.path.join(FIXTURE_DIR, name)
    if not sim.real:
        # model-only mode cannot know the content; the generator tracks a placeholder
        model = new_doc_model(a.get("rows", 12), a.get("cols", 8))
        model.source = name
        sim.docs.append(DocState(None, model)) if len(sim.docs) < MAX_DOCS else sim.docs.__setitem__(a.get("d", 0) % len(sim.docs), DocState(None, model))
        return "ok"
    from numbers_parser import Document

    doc = Document(path)
    model = sim.model_from_doc(doc, name)
    ds = DocState(doc, model)
    sim.doc_created(ds, path)
    if len(sim.docs) >= MAX_DOCS:
        sim.docs[a.get("d", 0) % len(sim.docs)] = ds
    else:
        sim.docs.append(ds)
    return "ok"


@op("drop")
def op_drop(sim: Sim, a) -> str:
    if len(sim.docs) <= 1:
        return "skip"
    del sim.docs[a["d"] % len(sim.docs)]
    return "ok"


def _pos_args(r, c, nota):
    if nota == "a1":
        return (a1(r, c),)
    if nota == "abs":
        return (a1(r, c, True),)
    return (r, c)


@op("write")
def op_write(sim: Sim, a) -> str:
    ds = sim.pick_doc(a["d"])
    if ds is None:
        return "skip"
    si, ti, tm, table = sim.pick_table(ds, a["s"], a["t"])
    r, c = a["r"], a["c"]
    if r < 0 or c < 0 or r >= MAX_ROW or c >= MAX_COL:
        return "skip"
    if sim.cfg.get("writes_in_bounds") and tm.nrows and tm.ncols:
        # profiles whose statements do not quantify over growth (C15, C16): a write never grows the table there -
        # on the pinned tree cells created by growth do not pick up strokes already drawn on the edge they share
        r, c = r % tm.nrows, c % tm.ncols
    if max(tm.nrows, r + 1) * max(tm.ncols, c + 1) > CELL_CAP:
        return "skip"
    if r < tm.nrows and c < tm.ncols and isinstance(tm.rows[r][c], Opaque) and tm.rows[r][c].cls == "MergedCell":
        return "skip"  # a covered cell of a merged range that came with a loaded document (bound as below)
    if "merges" in sim.aspects:
        m = tm.merge_at(r, c)
        if m is not None and (r, c) != (m[0], m[1]):
            return "skip"  # writes into placeholders are not generated (bound)
    v = V.dec(a["v"])
    if (tm.nrows - 1) >> 8 != (max(tm.nrows, r + 1) - 1) >> 8:
        sim.probe("grow_across_tile")
    grew = r >= tm.nrows or c >= tm.ncols
    tm.write(r, c, v)
    tm.styles.pop((r, c), None)  # a plain write replaces the cell object: its style goes with it (mirrored, not judged)
    if sim.real:
        with warnings.catch_warnings(record=True) as ws:
            warnings.simplefilter("always")
            table.write(*_pos_args(r, c, a.get("nota", "rc")), v)
        for w in ws:
            sim.probe("warn_" + w.category.__name__)
            if isinstance(v, float) and "rounded" in str(w.message):
                if float(f"{v:.15g}") == v:
                    # the value has at most 15 significant digits (it survives a 15-digit decimal round trip): inside C01's domain
                    sim.violation(f"{sim.prop if sim.prop in ('C01', 'C03') else 'C01'}.rounded_in_domain", {"kind": "float"},
                                  f"write of {v!r} (<= 15 significant digits) made the library warn {str(w.message)!r}")
                msg = f"generator produced a float that the library rounds: {v!r}"
                raise HarnessError(msg)
    return "ok_grew" if grew else "ok"


@op("add_row")
def op_add_row(sim: Sim, a) -> str:
    ds = sim.pick_doc(a["d"])
    if ds is None:
        return "skip"
    si, ti, tm, table = sim.pick_table(ds, a["s"], a["t"])
    n = max(1, a.get("n", 1))
    at = a.get("at")
    if at is not None:
        at = at % tm.nrows
    if (tm.nrows + n) * tm.ncols > CELL_CAP or tm.nrows + n > MAX_ROW:
        return "skip"
    dv = V.dec(a.get("dv"))
    if (tm.nrows - 1) >> 8 != (tm.nrows + n - 1) >> 8:
        sim.probe("grow_across_tile")
    if at is not None and tm.merges:
        sim.probe("insert_with_merges")
    tm.add_row(n, at, dv)
    if sim.real:
        kw = {}
        if dv is not None:
            kw["default"] = dv
        if at is None:
            table.add_row(n, **kw) if (n != 1 or kw or a.get("explicit")) else table.add_row()
        else:
            table.add_row(n, at, **kw)
        sim.adopt_merges(tm, table)
        tm.struct_edited = True
    return "ok"


@op("add_col")
def op_add_col(sim: Sim, a) -> str:
    ds = sim.pick_doc(a["d"])
    if ds is None:
        return "skip"
    si, ti, tm, table = sim.pick_table(ds, a["s"], a["t"])
    n = max(1, a.get("n", 1))
    at = a.get("at")
    if at is not None:
        at = at % tm.ncols
    if tm.nrows * (tm.ncols + n) > CELL_CAP or tm.ncols + n > MAX_COL:
        return "skip"
    dv = V.dec(a.get("dv"))
    tm.add_col(n, at, dv)
    if sim.real:
        kw = {}
        if dv is not None:
            kw["default"] = dv
        if at is None:
            table.add_column(n, **kw) if (n != 1 or kw or a.get("explicit")) else table.add_column()
        else:
            table.add_column(n, at, **kw)
        sim.adopt_merges(tm, table)
        tm.struct_edited = True
    return "ok"


@op("del_row")
def op_del_row(sim: Sim, a) -> str:
    ds = sim.pick_doc(a["d"])
    if ds is None:
        return "skip"
    si, ti, tm, table = sim.pick_table(ds, a["s"], a["t"])
    at = a.get("at")
    floor_rows = max(1, tm.hdr_r)
    allowed = tm.nrows - floor_rows
    if at is not None:
        at = at % tm.nrows
        allowed = min(allowed, tm.nrows - at)
    n = min(max(1, a.get("n", 1)), allowed)
    if n <= 0:
        return "skip"
    tm.del_row(n, at)
    if sim.real:
        if at is None:
            table.delete_row(n) if (n != 1 or a.get("explicit")) else table.delete_row()
        else:
            table.delete_row(n, at)
        sim.adopt_merges(tm, table)
        tm.struct_edited = True
    return "ok"


@op("del_col")
def op_del_col(sim: Sim, a) -> str:
    ds = sim.pick_doc(a["d"])
    if ds is None:
        return "skip"
    si, ti, tm, table = sim.pick_table(ds, a["s"], a["t"])
    at = a.get("at")
    floor_cols = max(1, tm.hdr_c)
    allowed = tm.ncols - floor_cols
    if at is not None:
        at = at % tm.ncols
        allowed = min(allowed, tm.ncols - at)
    n = min(max(1, a.get("n", 1)), allowed)
    if n <= 0:
        return "skip"
    tm.del_col(n, at)
    if sim.real:
        if at is None:
            table.delete_column(n) if (n != 1 or a.get("explicit")) else table.delete_column()
        else:
            table.delete_column(n, at)
        sim.adopt_merges(tm, table)
        tm.struct_edited = True
    return "ok"


@op("add_table")
def op_add_table(sim: Sim, a) -> str:
    ds = sim.pick_doc(a["d"])
    if ds is None:
        return "skip"
    m = ds.model
    si = a["s"] % len(m.sheets)
    sm = m.sheets[si]
    if len(sm.tables) >= sim.cfg.get("max_items", 7) or m.ncells() > CELL_CAP:
        return "skip"
    name = a.get("name")
    rows, cols = max(1, a.get("rows", 12)), max(1, a.get("cols", 8))
    hr, hc = min(a.get("hr", 1), rows, 5), min(a.get("hc", 1), cols, 5)
    x, y = a.get("x"), a.get("y")
    taken = sm.table_names_lower()
    sheet = ds.doc.sheets[si] if sim.real else None
    kwargs = {"num_rows": rows, "num_cols": cols, "num_header_rows": hr, "num_header_cols": hc}
    if a.get("defaults"):
        kwargs = {}
        rows, cols, hr, hc = 12, 8, 1, 1
    if name is not None and name.lower() in taken:
        sim.probe("dup_table_name")
        if sim.real:
            sim.expect_raises("C19.dup_refused", {"kind": "table"}, lambda: sheet.add_table(name, x, y, **kwargs))
        return "raises_IndexError"
    if name is None:
        exp_name = fresh_name("Table", taken)
        if any(t.startswith("table ") for t in taken):
            sim.probe("auto_table_name_with_lookalikes")
    else:
        exp_name = name
    tm = TableM(exp_name, rows, cols, hr, hc)
    if x is not None or y is not None:
        tm.coords = (x if x is not None else 0.0, y)
    sm.tables.append(tm)
    if sim.real:
        t = sheet.add_table(name, x, y, **kwargs)
        if t.name != exp_name:
            if t.name.lower() in taken:
                sim.violation("C19.fresh" if name is None else "C19.unique", {"kind": "table"},
                              f"add_table({name!r}) produced {t.name!r} which collides with siblings {taken}")
            # a different fresh name than the model's choice is not a violation of the statement
            tm.name = t.name
    return "ok"


@op("add_sheet")
def op_add_sheet(sim: Sim, a) -> str:
    ds = sim.pick_doc(a["d"])
    if ds is None:
        return "skip"
    m = ds.model
    if len(m.sheets) >= sim.cfg.get("max_items", 7) or m.ncells() > CELL_CAP:
        return "skip"
    name = a.get("name")
    tname = a.get("tname", "Table 1")
    rows, cols = max(1, a.get("rows", 12)), max(1, a.get("cols", 8))
    taken = m.sheet_names_lower()
    kwargs = {"table_name": tname, "num_rows": rows, "num_cols": cols}
    if a.get("defaults"):
        kwargs = {}
        tname, rows, cols = "Table 1", 12, 8
    if name is not None and name.lower() in taken:
        sim.probe("dup_sheet_name")
        if sim.real:
            sim.expect_raises("C19.dup_refused", {"kind": "sheet"}, lambda: ds.doc.add_sheet(name, **kwargs))
        return "raises_IndexError"
    exp_name = fresh_name("Sheet", taken) if name is None else name
    if name is None and any(t.startswith("sheet ") for t in taken):
        sim.probe("auto_sheet_name_with_lookalikes")
    sm = SheetM(exp_name)
    sm.tables.append(TableM(tname, rows, cols, min(1, rows), min(1, cols)))
    m.sheets.append(sm)
    if sim.real:
        ds.doc.add_sheet(name, **kwargs)
        got = ds.doc.sheets[len(m.sheets) - 1].name
        if got != exp_name:
            if got.lower() in taken:
                sim.violation("C19.fresh" if name is None else "C19.unique", {"kind": "sheet"},
                              f"add_sheet({name!r}) produced {got!r} which collides with {taken}")
            sm.name = got
    return "ok"


@op("rename_table")
def op_rename_table(sim: Sim, a) -> str:
    ds = sim.pick_doc(a["d"])
    if ds is None:
        return "skip"
    si, ti, tm, table = sim.pick_table(ds, a["s"], a["t"])
    name = a["name"]
    others = [t.name.lower() for i, t in enumerate(ds.model.sheets[si].tables) if i != ti]
    if name.lower() in others:
        return "skip"  # renaming onto a sibling's name is not generated (bound)
    tm.name = name
    if sim.real:
        table.name = name
    return "ok"


@op("rename_sheet")
def op_rename_sheet(sim: Sim, a) -> str:
    ds = sim.pick_doc(a["d"])
    if ds is None:
        return "skip"
    m = ds.model
    si = a["s"] % len(m.sheets)
    name = a["name"]
    others = [s.name.lower() for i, s in enumerate(m.sheets) if i != si]
    if name.lower() in others:
        return "skip"
    m.sheets[si].name = name
    if sim.real:
        ds.doc.sheets[si].name = name
    return "ok"


# ---- persistence ---------------------------------------------------------------------------------------


def _budget_for(sim: Sim, fault: dict) -> int:
    base = sim.last_save_size
    cls = fault.get("cls", "frac")
    frac = fault.get("frac", 0.5)
    if cls == "zero":
        return 0
    if cls == "head":
        return int(frac * 64)
    if cls == "tail":
        return max(0, base - int(frac * 64) - 1)
    if cls == "abs":
        return int(fault.get("bytes", 0))
    return int(frac * base)


@op("save")
def op_save(sim: Sim, a) -> str:
    ds = sim.pick_doc(a["d"])
    if ds is None:
        return "skip"
    slot = sim.slots[a["slot"] if a["slot"] in sim.slots else ALL_SLOTS[hash_str(a["slot"]) % len(ALL_SLOTS)]]
    fault = a.get("fault")
    package = slot.form == "package"
    if not sim.real:
        if fault and fault.get("frac", 0.5) < 0.95 and fault.get("cls") != "abs":
            slot.status = "torn"
            slot.model = None
            if fault["kind"] == "crash":
                # the process died: the document object is gone
                _remove_doc(sim, ds)
                return "crash"
            return "oserror"
        slot.status = "good"
        slot.model = ds.model.clone()
        return "ok"

    world = sim.world
    path = sim.slot_path(slot.name)
    if slot.status in ("torn", "corrupt", "foreign") and a.get("wipe", True):
        world.remove(path)
        slot.status = "absent"
    if slot.status == "good":
        sim.probe("save_over_existing")
    if ds.failed_saves:
        sim.probe("save_after_failed_save")
    prior_status = slot.status
    plan = None
    if fault:
        errno_ = errno.EIO if fault.get("err") == "EIO" else errno.ENOSPC
        plan = WritePlan(fault["kind"], _budget_for(sim, fault), errno_, int(fault.get("lost", 0)), bool(fault.get("transient")))
    world.begin_save(plan)
    outcome = None
    try:
        try:
            with warnings.catch_warnings(record=True) as ws:
                warnings.simplefilter("always")
                ds.doc.save(path, package=package)
            for w in ws:
                sim.probe("warn_" + w.category.__name__)
            outcome = "ok"
        except SimCrash:
            outcome = "crash"
        except OSError as e:
            if plan is not None and plan.fired and plan.kind == "write_error":
                outcome = "oserror"
            else:
                sim.violation(f"{sim.prop}.save_raised", {"exc": type(e).__name__, "in": str(lib_frame(e))},
                              f"save to {slot.name} raised {type(e).__name__}: {e} with no fault injected")
        except Violation:
            raise
        except Exception as e:  # noqa: BLE001
            name = type(e).__name__
            if name == "FileFormatError" and package and prior_status in ("torn", "corrupt", "foreign"):
                # documented: refusing to write a package into a folder that is not a Numbers document
                sim.log.append([sim.step_no, "save_refused", slot.name])
                return "refused"
            if plan is not None and plan.fired:
                sim.violation("C03.failed_save_exception", {"exc": name, "in": str(lib_frame(e))},
                              f"injected {plan.kind} surfaced as {name}: {e} (expected OSError to propagate)")
            sim.violation(f"{sim.prop}.save_raised", {"exc": name, "in": str(lib_frame(e))},
                          f"save to {slot.name} raised {name}: {e}\n{_tb(e)}")
    finally:
        world.end_save()

    if outcome == "ok":
        ds.saves += 1
        slot.status = "good"
        slot.model = ds.model.clone()
        slot.relaid = False
        slot.size = world.tree_size(path)
        sim.last_save_size = max(1, slot.size)
        sim.stats["saves_ok"] += 1
        sim.log.append([sim.step_no, "saved", slot.name, world.tree_digest(path)])
        if plan is not None and not plan.fired:
            sim.probe("fault_budget_beyond_save")
        for hook in sim.save_hooks:
            hook(sim, ds, slot, path)
        if sim.faults_pending_liveness:
            sim.probe("fault_free_save_after_fault")
        return "ok"
    slot.status = "torn"
    slot.model = None
    sim.faults_pending_liveness = True
    sim.log.append([sim.step_no, "torn", slot.name, world.tree_digest(path), plan.fired_in])
    if outcome == "oserror":
        ds.failed_saves += 1
        sim.stats["saves_failed"] += 1
        return "oserror"
    sim.stats["saves_crashed"] += 1
    _remove_doc(sim, ds)
    return "crash"


def _remove_doc(sim: Sim, ds: DocState) -> None:
    sim.docs = [x for x in sim.docs if x is not ds]


def _tb(e: BaseException) -> str:
    return "".join(traceback.format_exception(type(e), e, e.__traceback__)[-6:])


def hash_str(s: str) -> int:
    return int(hashlib.sha1(s.encode()).hexdigest()[:8], 16)  # noqa: S324


@op("restart")
def op_restart(sim: Sim, a) -> str:
    """Throw a document object away (or not) and open what is on disk in a slot."""
    slot = sim.slots.get(a["slot"])
    if slot is None or slot.status == "absent":
        return "skip"
    replace = a.get("replace", True)
    if not sim.real:
        if slot.status != "good":
            return "torn"
        if slot.model is None:
            return "torn"
        ds = DocState(None, slot.model.clone())
        _place_doc(sim, ds, a, replace)
        return "ok"
    path = sim.slot_path(slot.name)
    if slot.status != "good":
        sim.stats["restart_after_torn"] += 1
        res = sim.open_classified(path, {"slot": slot.name, "status": slot.status})
        oc = sim.stats.setdefault("damaged_open", {})
        k = res[0] if res[0] != "liberr" else res[1]
        oc[k] = oc.get(k, 0) + 1
        if res[0] == "opened":
            sim.stats["torn_opened"] += 1
            if a.get("adopt") and slot.status == "foreign":
                ds = DocState(res[1], sim.model_from_doc(res[1], slot.name))
                _place_doc(sim, ds, a, replace)
                return "foreign_opened"
            return slot.status + "_opened"
        sim.stats["torn_open_liberr"] += 1
        return slot.status + "_" + k
    from numbers_parser import Document

    try:
        with warnings.catch_warnings(record=True) as ws:
            warnings.simplefilter("always")
            doc = Document(path)
        for w in ws:
            sim.probe("warn_open_" + w.category.__name__)
    except Exception as e:  # noqa: BLE001
        chk = "C07.reopens" if sim.prop == "C07" else f"{sim.prop}.reopen_failed"
        sim.violation(chk, {"exc": type(e).__name__, "in": str(lib_frame(e))},
                      f"a file saved without fault does not reopen: {type(e).__name__}: {e}\n{_tb(e)}")
    sim.stats["restarts_ok"] += 1
    sim.check_doc(doc, slot.model, where=f"reopened {slot.name}", after="restart", reopened=True)
    if sim.cfg.get("_reopen_checks"):
        # deep reads go to a separate probe instance so that the working instance stays unqueried
        # (reading fills caches that the next save consults: an observation is an event)
        with warnings.catch_warnings():
            warnings.simplefilter("ignore")
            probe_doc = Document(path) if sim.cfg.get("probe_reads", True) else doc
        for fn in sim.cfg.get("_reopen_checks", []):
            fn(sim, probe_doc, slot)
    if sim.faults_pending_liveness:
        sim.probe("recovered_after_fault")
        sim.faults_pending_liveness = False
    ds = DocState(doc, slot.model.clone())
    for _si, _ti, t_ in ds.model.tables():
        if t_.legacy_merges and t_.struct_edited:
            # this instance was READ from a file that carries both the moved merge map and the untouched owner
            # records (known finding): ghost ranges may also surface later in memory, e.g. when the table grows
            t_.legacy_reloaded = True
    sim.doc_created(ds, path)
    _place_doc(sim, ds, a, replace)
    return "ok"


def _place_doc(sim: Sim, ds: DocState, a, replace: bool) -> None:
    if sim.docs and (replace or len(sim.docs) >= MAX_DOCS):
        sim.docs[a.get("d", 0) % len(sim.docs)] = ds
    else:
        sim.docs.append(ds)
