"""C07: validator hooks, and the formatting / custom-format / caption operations that create objects."""

from __future__ import annotations

import os
import warnings

from dsim import pkgcheck
from dsim import values as V
from dsim.sim import Sim, op

_TEMPLATE_BASELINE = None


def template_baseline():
    global _TEMPLATE_BASELINE
    if _TEMPLATE_BASELINE is None:
        import numbers_parser

        path = os.path.join(os.path.dirname(numbers_parser.__file__), "data", "empty.numbers")
        _TEMPLATE_BASELINE = pkgcheck.baseline_of(path)
    return _TEMPLATE_BASELINE


def doc_hook(sim: Sim, ds, source_path) -> None:
    """Remember what the source package looked like: 'created or rewrote' is relative to it."""
    ds.baseline = template_baseline() if source_path is None else pkgcheck.baseline_of(source_path)


def save_hook(sim: Sim, ds, slot, path) -> None:
    base = getattr(ds, "baseline", None)
    if base is None:
        return
    pivots = {t.name for _si, _ti, t in ds.model.tables() if t.pivot}
    findings, stats = pkgcheck.validate(path, base, pivots)
    agg = sim.stats.setdefault("validator", {})
    agg["packages"] = agg.get("packages", 0) + 1
    for k, v in stats.items():
        agg[k] = agg.get(k, 0) + v
    if findings:
        cid, key, detail = findings[0]
        sim.violation(cid, key, f"package saved to {slot.name} ({stats}): {detail}" + (f" (+{len(findings) - 1} more findings)" if len(findings) > 1 else ""))


NUMBER_KINDS = ["number", "currency", "percentage", "scientific", "base", "fraction", "rating", "slider", "stepper", "popup_num"]


@op("set_format")
def op_set_format(sim: Sim, a) -> str:
    ds = sim.pick_doc(a["d"])
    if ds is None:
        return "skip"
    si, ti, tm, table = sim.pick_table(ds, a["s"], a["t"])
    r, c = a["r"] % tm.nrows, a["c"] % tm.ncols
    if tm.merge_at(r, c) is not None:
        return "skip"
    v = tm.rows[r][c]
    k = a.get("k", 0)
    from dsim.models import Opaque

    if isinstance(v, Opaque) or v is None:
        return "skip"
    args, kw = None, {}
    if isinstance(v, bool):
        args = "tickbox"
    elif isinstance(v, (int, float)):
        kind = a.get("kind") if a.get("kind") in NUMBER_KINDS else NUMBER_KINDS[k % len(NUMBER_KINDS)]
        if kind == "rating" and not (0 <= v <= 5):
            kind = "number"  # a star rating renders int(value) stars: only meaningful (and bounded) for 0..5
        if kind == "number":
            args, kw = "number", {"decimal_places": k % 5, "show_thousands_separator": bool(k % 2)}
        elif kind == "currency":
            args, kw = "currency", {"currency_code": ["GBP", "USD", "EUR", "JPY"][k % 4], "decimal_places": k % 3}
        elif kind == "percentage":
            args, kw = "percentage", {"decimal_places": k % 4}
        elif kind == "scientific":
            args, kw = "scientific", {"decimal_places": k % 4}
        elif kind == "base":
            args, kw = "base", {"base": [2, 8, 16, 36][k % 4], "base_places": k % 3}
        elif kind == "fraction":
            args = "fraction"
        elif kind == "rating":
            args = "rating"
        elif kind == "slider":
            args, kw = "slider", {"minimum": -1000000.0, "maximum": 1e16, "increment": 1.0}
        elif kind == "stepper":
            args, kw = "stepper", {"minimum": -1e16, "maximum": 1e16, "increment": 0.5}
        else:
            args, kw = "popup", {"popup_values": [v, 1, 2.5], "allow_none": bool(k % 2)}
    elif isinstance(v, str):
        if v == "":
            return "skip"
        args, kw = "popup", {"popup_values": [v, "other", "z"], "allow_none": True}
    else:
        import datetime as _dt

        if isinstance(v, _dt.datetime):
            args, kw = "datetime", {"date_time_format": ["yyyy-MM-dd", "EEEE, d MMMM yyyy", "HH:mm:ss", "d/M/yy h:mm a"][k % 4]}
        else:
            return "skip"
    if sim.real:
        with warnings.catch_warnings():
            warnings.simplefilter("ignore")
            try:
                table.set_cell_formatting(r, c, args, **kw)
            except Exception as e:  # noqa: BLE001
                # whether a formatting call may fail is not C07's business (it speaks about what gets SAVED);
                # the history simply continues and whatever is saved afterwards is validated as usual
                sim.probe(f"format_call_raised_{args}_{type(e).__name__}")
                return "raised_" + type(e).__name__
        sim.probe("format_" + args)
    return "ok"


# formula texts the library's own parser accepts (no leading "="); structurally different, so each gets its own key
FORMULAS = ["C3+D3", "C3×D3", "SUM(A1:B2)", "A1&B1", "IF(A1>2,\"x\",B2)", "A1", "SUM(A1:B2)+MAX(C1:C3)", "1+2", "A1+1.5", "$A$1+B$2",
            "A1<=B1", "A1^2", "LEN(\"abc\")", "ROUND(A1,2)", "-A1"]


@op("set_formula")
def op_set_formula(sim: Sim, a) -> str:
    """Give an existing value cell a formula through the cell.formula setter. The grid model is unaffected
    (the cell keeps its value); the formula text is what the deep snapshots of C02/C06 and the validator of C07 see."""
    ds = sim.pick_doc(a["d"])
    if ds is None:
        return "skip"
    si, ti, tm, table = sim.pick_table(ds, a["s"], a["t"])
    r, c = a["r"] % tm.nrows, a["c"] % tm.ncols
    if tm.merge_at(r, c) is not None:
        return "skip"
    v = tm.rows[r][c]
    if isinstance(v, bool) or not isinstance(v, (int, float)):
        return "skip"
    if sim.real:
        with warnings.catch_warnings():
            warnings.simplefilter("ignore")
            try:
                table.cell(r, c).formula = FORMULAS[a.get("k", 0) % len(FORMULAS)]
            except Exception as e:  # noqa: BLE001
                sim.probe(f"formula_call_raised_{type(e).__name__}")
                return "raised_" + type(e).__name__
        sim.probe("formula_set")
    return "ok"


@op("custom_format")
def op_custom_format(sim: Sim, a) -> str:
    ds = sim.pick_doc(a["d"])
    if ds is None:
        return "skip"
    si, ti, tm, table = sim.pick_table(ds, a["s"], a["t"])
    r, c = a["r"] % tm.nrows, a["c"] % tm.ncols
    if tm.merge_at(r, c) is not None:
        return "skip"
    v = tm.rows[r][c]
    import datetime as _dt

    from dsim.models import Opaque

    if isinstance(v, Opaque) or v is None or isinstance(v, (bool, _dt.timedelta)):
        return "skip"
    m = ds.model
    name = a.get("name")
    if name is not None and name in m.custom_formats:
        return "skip"
    if len(m.custom_formats) >= 6:
        return "skip"
    k = a.get("k", 0)
    if isinstance(v, (int, float)):
        kw = {"type": "number", "num_integers": k % 7, "num_decimals": k % 4, "show_thousands_separator": bool(k % 2)}
    elif isinstance(v, str):
        kw = {"type": "text", "format": ["before %s after", "%s", "x%s"][k % 3]}
    else:
        kw = {"type": "datetime", "format": ["d MMM y", "yyyy", "HH:mm"][k % 3]}
    if name is not None:
        kw["name"] = name
    if sim.real:
        with warnings.catch_warnings():
            warnings.simplefilter("ignore")
            try:
                cf = ds.doc.add_custom_format(**kw)
                table.set_cell_formatting(r, c, "custom", format=cf if k % 2 else cf.name)
            except Exception as e:  # noqa: BLE001
                sim.probe(f"format_call_raised_custom_{type(e).__name__}")
                return "raised_" + type(e).__name__
        m.custom_formats.append(cf.name)
        sim.probe("custom_format_" + kw["type"])
    else:
        m.custom_formats.append(name or f"cf{len(m.custom_formats)}")
    return "ok"
