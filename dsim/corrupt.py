"""At-rest damage (fault catalogue F3 of DESIGN.md) applied to a saved or copied document."""

from __future__ import annotations

import io
import os
import shutil
import zipfile

from dsim import iwa_indep as iwa
from dsim.container import read_container, write_container
from dsim.world import _REAL_OPEN

RAW_KINDS = ["truncate", "bitflip", "overwrite"]
MEMBER_KINDS = [
    "m_empty", "m_short", "m_cut_at_chunk", "m_cut_off_chunk", "m_marker", "m_len_plus", "m_len_minus", "m_bad_snappy",
    "m_bad_varint", "m_bad_header", "m_msg_len_past_end", "m_truncate_raw", "m_garbage_tail",
    "m_unknown_type", "m_no_message_infos", "m_zero_length",
]
CONTAINER_KINDS = ["c_iwph", "c_plist_malformed", "c_plist_wrong_type", "c_zip_codec_damaged", "c_metadata_names", "c_plist_missing", "c_build_missing", "c_dir_for_file", "c_empty_dir", "c_not_zip", "c_nested_index_damaged", "c_drop_member", "c_suffix"]
ALL_KINDS = RAW_KINDS + MEMBER_KINDS + CONTAINER_KINDS


def gen_fault(rng, kinds=None) -> dict:
    kind = rng.choice(kinds or ALL_KINDS)
    f = {"kind": kind, "a": rng.random(), "b": rng.random(), "n": rng.randint(1, 8), "member": rng.random()}
    if kind == "truncate":
        f["cls"] = rng.choice(["zero", "head", "payload", "cdir", "eocd", "minus1", "uniform"])
    if kind in ("bitflip", "overwrite"):
        f["aim"] = rng.choice(["uniform", "uniform", "local_header", "payload", "cdir", "eocd"])
        f["offs"] = [rng.random() for _ in range(f["n"])]
        f["bits"] = [rng.randrange(8) for _ in range(f["n"])]
    return f


# ---- helpers -------------------------------------------------------------------------------------------


def _raw_target(path: str, f: dict):
    """The file whose bytes raw faults hit: the zip itself, or Index.zip / a loose file of a package."""
    if os.path.isdir(path):
        files = []
        for dirpath, dirnames, filenames in os.walk(path):
            dirnames.sort()
            for fn in sorted(filenames):
                files.append(os.path.join(dirpath, fn))
        if not files:
            return None
        idx = [p for p in files if os.path.basename(p).lower() == "index.zip"]
        if idx and f["member"] < 0.7:
            return idx[0]
        return files[int(f["member"] * len(files)) % len(files)]
    return path if os.path.exists(path) else None


def _zip_layout(data: bytes):
    try:
        with zipfile.ZipFile(io.BytesIO(data)) as z:
            infos = z.infolist()
            return [(i.header_offset, i.compress_size, len(i.filename)) for i in infos], z.start_dir
    except Exception:  # noqa: BLE001
        return [], None


def _aim(data: bytes, aim: str, frac: float) -> int:
    n = len(data)
    if n == 0:
        return 0
    layout, start_dir = _zip_layout(data)
    if aim == "local_header" and layout:
        off, _cs, fl = layout[int(frac * len(layout)) % len(layout)]
        return min(n - 1, off + int((frac * 977) % (30 + fl)))
    if aim == "payload" and layout:
        off, cs, fl = layout[int(frac * len(layout)) % len(layout)]
        return min(n - 1, off + 30 + fl + int((frac * 7919) % max(cs, 1)))
    if aim == "cdir" and start_dir is not None and start_dir < n:
        return min(n - 1, start_dir + int(frac * (n - start_dir)))
    if aim == "eocd" and n >= 22:
        # the end-of-central-directory record: entry counts, directory size and directory offset
        return n - 22 + int(frac * 22) % 22
    return min(n - 1, int(frac * n))


def apply_fault(path: str, f: dict) -> str:
    """Damage the document at ``path``; returns a short description ('' if not applicable)."""
    kind = f["kind"]
    try:
        if kind in RAW_KINDS:
            return _apply_raw(path, f)
        if kind in MEMBER_KINDS:
            return _apply_member(path, f)
        return _apply_container(path, f)
    except Exception:  # noqa: BLE001
        # the document is already too damaged (by an earlier fault of the sequence) for this
        # fault to be constructed: not applicable.  Reach is visible in the per-kind counters.
        return ""


def _apply_raw(path: str, f: dict) -> str:
    target = _raw_target(path, f)
    if target is None:
        return ""
    with _REAL_OPEN(target, "rb") as fh:
        data = bytearray(fh.read())
    n = len(data)
    rel = os.path.relpath(target, os.path.dirname(path))
    kind = f["kind"]
    if kind == "truncate":
        cls = f["cls"]
        layout, start_dir = _zip_layout(bytes(data))
        if cls == "zero" or n == 0:
            cut = 0
        elif cls == "head":
            cut = 1 + int(f["a"] * 30) % max(1, min(30, n - 1))
        elif cls == "payload":
            cut = _aim(bytes(data), "payload", f["a"])
        elif cls == "cdir" and start_dir is not None:
            cut = min(n - 1, start_dir + int(f["a"] * max(1, n - start_dir - 22)))
        elif cls == "eocd":
            cut = max(0, n - 1 - int(f["a"] * 22))
        elif cls == "minus1":
            cut = n - 1
        else:
            cut = int(f["a"] * n)
        cut = max(0, min(n, cut))
        del data[cut:]
        desc = f"truncate {rel} {n}->{cut} ({cls})"
    elif kind == "bitflip":
        if n == 0:
            return ""
        offs = []
        for frac, bit in zip(f["offs"], f["bits"]):
            o = _aim(bytes(data), f["aim"], frac)
            data[o] ^= 1 << bit
            offs.append(o)
        desc = f"bitflip {rel} x{len(offs)} aim={f['aim']}"
    else:
        if n == 0:
            return ""
        for frac, bit in zip(f["offs"], f["bits"]):
            o = _aim(bytes(data), f["aim"], frac)
            data[o] = (data[o] + 1 + bit * 31) & 0xFF
        desc = f"overwrite {rel} x{len(f['offs'])} aim={f['aim']}"
    with _REAL_OPEN(target, "wb") as fh:
        fh.write(bytes(data))
    return desc


def _apply_member(path: str, f: dict) -> str:
    try:
        c = read_container(path)
    except Exception:  # noqa: BLE001  already damaged beyond a valid re-zip
        return ""
    names = [n for n in c.iwa_names() if iwa.is_framed(c.members[n])]
    if not names:
        return ""
    # bias towards the archives every open touches
    core = [n for n in names if n in ("Index/Document.iwa", "Index/Metadata.iwa", "Index/CalculationEngine.iwa", "Index/DocumentStylesheet.iwa")]
    pick = core if (core and f["b"] < 0.35) else names
    name = sorted(pick)[int(f["member"] * len(pick)) % len(pick)]
    data = c.members[name]
    kind = f["kind"]
    chunks = iwa.split_chunks(data)
    bounds = []
    pos = 0
    for ch in chunks:
        pos += 4 + len(ch)
        bounds.append(pos)
    if kind == "m_empty":
        new = b""
    elif kind == "m_short":
        new = data[: 1 + f["n"] % 3]
    elif kind == "m_cut_at_chunk":
        new = data[: bounds[int(f["a"] * len(bounds)) % len(bounds)]] if len(bounds) > 1 else data[:4]
        if new == data:
            new = data[:4]
    elif kind == "m_cut_off_chunk":
        b = bounds[int(f["a"] * len(bounds)) % len(bounds)]
        new = data[: max(1, b - 1)] if f["b"] < 0.5 else data[: min(len(data) - 1, b + 1)] if b < len(data) else data[:-1]
    elif kind == "m_marker":
        new = bytes([1 + f["n"]]) + data[1:]
    elif kind == "m_len_plus":
        ln = int.from_bytes(data[1:4], "little") + f["n"]
        new = data[:1] + (ln & 0xFFFFFF).to_bytes(3, "little") + data[4:]
    elif kind == "m_len_minus":
        ln = max(0, int.from_bytes(data[1:4], "little") - f["n"])
        new = data[:1] + ln.to_bytes(3, "little") + data[4:]
    elif kind == "m_bad_snappy":
        ch = bytearray(chunks[0])
        for i in range(min(len(ch), 3 + f["n"])):
            ch[i] = (ch[i] * 7 + 251) & 0xFF
        new = b"\x00" + len(ch).to_bytes(3, "little") + bytes(ch) + data[4 + len(chunks[0]) :]
    else:
        try:
            raw = iwa.unframe(data)
        except Exception:  # noqa: BLE001
            return ""
        if kind == "m_bad_varint":
            raw2 = b"\xff" * (5 + f["n"]) + raw[1:]
        elif kind == "m_bad_header":
            ln, p = iwa.read_varint(raw, 0)
            if ln > len(raw):
                return ""  # an earlier fault of the sequence already destroyed the header length
            junk = bytes((i * 37 + f["n"] * 11 + 0x80) & 0xFF for i in range(ln))
            raw2 = raw[:p] + junk + raw[p + ln :]
        elif kind == "m_msg_len_past_end":
            segs = iwa.parse_stream(raw)
            segs[-1].info.message_infos[-1].length = len(segs[-1].payloads[-1]) + 1000 + f["n"]
            hdr = segs[-1].info.SerializeToString()
            # re-emit by hand so the declared length stays wrong
            out = []
            for s in segs[:-1]:
                out.append(iwa.build_stream([s]))
            out.append(iwa.write_varint(len(hdr)) + hdr + b"".join(segs[-1].payloads))
            raw2 = b"".join(out)
        elif kind in ("m_unknown_type", "m_no_message_infos", "m_zero_length"):
            # the container, framing and ArchiveInfo all still decode; one segment's header is inconsistent
            segs = iwa.parse_stream(raw)
            seg = segs[int(f["a"] * len(segs)) % len(segs)]
            if kind == "m_unknown_type":
                seg.info.message_infos[0].type = [59999, 0, 7, 2147483647][f["n"] % 4]
                raw2 = iwa.build_stream(segs)
            elif kind == "m_no_message_infos":
                body = b"".join(seg.payloads)
                del seg.info.message_infos[:]
                out = []
                for s2 in segs:
                    if s2 is seg:
                        hdr = s2.info.SerializeToString()
                        out.append(iwa.write_varint(len(hdr)) + hdr + (body if f["b"] < 0.5 else b""))
                    else:
                        out.append(iwa.build_stream([s2]))
                raw2 = b"".join(out)
            else:
                out = []
                for s2 in segs:
                    if s2 is seg:
                        s2.info.message_infos[0].length = 0
                        hdr = s2.info.SerializeToString()
                        out.append(iwa.write_varint(len(hdr)) + hdr + b"".join(s2.payloads))
                    else:
                        out.append(iwa.build_stream([s2]))
                raw2 = b"".join(out)
        elif kind == "m_truncate_raw":
            raw2 = raw[: int(f["a"] * len(raw))]
        else:  # m_garbage_tail
            raw2 = raw + bytes((i * 13 + 7) & 0xFF for i in range(1 + f["n"]))
        new = iwa.frame(raw2)
    c.members[name] = new
    write_container(path, c)
    return f"{kind} {name} {len(data)}->{len(new)}"


def _apply_container(path: str, f: dict) -> str:
    kind = f["kind"]
    if kind == "c_suffix":
        return ""  # handled by the op (opens a copy under another name)
    if kind == "c_empty_dir":
        if os.path.isdir(path):
            shutil.rmtree(path)
        elif os.path.exists(path):
            os.remove(path)
        os.mkdir(path)
        return "empty directory"
    if kind == "c_not_zip":
        if os.path.isdir(path):
            shutil.rmtree(path)
        with _REAL_OPEN(path, "wb") as fh:
            fh.write(bytes((i * 31 + f["n"]) & 0xFF for i in range(int(f["a"] * 4096))))
        return "not a zip"
    try:
        c = read_container(path)
    except Exception:  # noqa: BLE001
        return ""
    if kind == "c_iwph":
        if c.form != "file":
            return ""
        c.members[".iwph"] = b"\x00" * 16
        c.zip_order = [".iwph", *c.zip_order] if f["a"] < 0.5 else [*c.zip_order, ".iwph"]
        write_container(path, c)
        return "encrypted marker .iwph"
    if kind == "c_plist_malformed":
        name = "Metadata/Properties.plist" if f["a"] < 0.7 else "Metadata/BuildVersionHistory.plist"
        if name not in c.members:
            return ""
        d = c.members[name]
        c.members[name] = [b"", b"bplist00", d[: len(d) // 2], b"<?xml version='1.0'?><plist><dict><key>x", bytes(reversed(d))][f["n"] % 5]
        write_container(path, c)
        return f"malformed {name}"
    if kind == "c_metadata_names":
        # the two metadata members under unusual names: one missing and the other present twice (under another
        # folder, or as a second zip entry of the same name), both moved under a prefix, upper-cased, ...
        pl, bv = "Metadata/Properties.plist", "Metadata/BuildVersionHistory.plist"
        if pl not in c.members or bv not in c.members:
            return ""
        variant = f["n"] % 6
        prefix = ["old/", "copy.numbers/", "x/y/", "Backup "][int(f["a"] * 4) % 4]
        order = list(c.zip_order)
        if variant == 0:
            del c.members[pl]
            c.members[prefix + bv] = c.members[bv]
            order = [n for n in order if n != pl] + [prefix + bv]
        elif variant == 1:
            del c.members[bv]
            c.members[prefix + pl] = c.members[pl]
            order = [n for n in order if n != bv] + [prefix + pl]
        elif variant == 2:
            for n in (pl, bv):
                c.members[prefix + n] = c.members.pop(n)
            order = [prefix + n if n in (pl, bv) else n for n in order]
        elif variant == 3:
            c.members[prefix + pl] = c.members[pl]
            c.members[prefix + bv] = b"not a plist"
            order = order + [prefix + pl, prefix + bv]
        elif variant == 4:
            for n in (pl, bv):
                c.members[n.upper()] = c.members.pop(n)
            order = [n.upper() if n in (pl, bv) else n for n in order]
        else:
            del c.members[pl]
            c.members[bv + ".bak/" + "BuildVersionHistory.plist"] = c.members[bv]
            order = [n for n in order if n != pl] + [bv + ".bak/" + "BuildVersionHistory.plist"]
        c.zip_order = order
        write_container(path, c)
        return f"metadata names variant {variant} prefix {prefix!r}"
    if kind == "c_plist_wrong_type":
        # a well-formed property list whose entries have unexpected types or are absent
        import datetime as _dt
        import plistlib

        name = "Metadata/Properties.plist"
        if name not in c.members:
            return ""
        try:
            props = plistlib.loads(c.members[name])
        except Exception:  # noqa: BLE001
            props = {}
        if not isinstance(props, dict):
            props = {}
        odd = [14, 14.1, b"14.1", ["14.1"], {"v": "14.1"}, True, _dt.datetime(2020, 1, 1), "", "14", "abc", "14.1.2.3", " 13.2 "][f["n"] % 12]
        which = f["a"]
        if which < 0.7:
            props["fileFormatVersion"] = odd
            what = f"fileFormatVersion={odd!r}"
        elif which < 0.85:
            props.pop("fileFormatVersion", None)
            what = "fileFormatVersion absent"
        else:
            props = [odd] if f["b"] < 0.5 else odd if not isinstance(odd, (dict,)) else "x"
            what = f"top-level object {type(props).__name__}"
        fmt = plistlib.FMT_BINARY if f["b"] < 0.5 else plistlib.FMT_XML
        c.members[name] = plistlib.dumps(props, fmt=fmt)
        write_container(path, c)
        return f"plist types: {what}"
    if kind == "c_zip_codec_damaged":
        # one member stored with another codec zipfile can read (bzip2, LZMA, deflate) and its compressed stream damaged
        names = [n for n in c.zip_order if len(c.members[n]) > 64 and (c.form == "file" or n.startswith("Index/"))]
        if c.form == "pkgloose" or not names:
            return ""
        name = sorted(names)[int(f["member"] * len(names)) % len(names)]
        method = [zipfile.ZIP_BZIP2, zipfile.ZIP_LZMA, zipfile.ZIP_DEFLATED][f["n"] % 3]
        write_container(path, c, methods={name: method})
        target = path if c.form == "file" else os.path.join(path, "Index.zip")
        if not os.path.isfile(target):
            return ""
        with zipfile.ZipFile(target) as z:
            try:
                zi = z.getinfo(name)
            except KeyError:
                return ""
            hdr, csize = zi.header_offset, zi.compress_size
        with _REAL_OPEN(target, "rb") as fh:
            data = bytearray(fh.read())
        nlen, xlen = int.from_bytes(data[hdr + 26 : hdr + 28], "little"), int.from_bytes(data[hdr + 28 : hdr + 30], "little")
        start = hdr + 30 + nlen + xlen
        if csize < 8:
            return ""
        # damage inside the stream (past the codec's own header), keep the zip structure intact
        pos = start + min(csize - 1, 6 + int(f["a"] * (csize - 7)))
        for i in range(min(1 + f["n"], start + csize - pos)):
            data[pos + i] ^= 0xA5
        with _REAL_OPEN(target, "wb") as fh:
            fh.write(bytes(data))
        return f"{name} recompressed with method {method} and damaged at +{pos - start}/{csize}"
    if kind in ("c_plist_missing", "c_build_missing", "c_drop_member"):
        if kind == "c_plist_missing":
            name = "Metadata/Properties.plist"
        elif kind == "c_build_missing":
            name = "Metadata/BuildVersionHistory.plist"
        else:
            names = sorted(c.members)
            if not names:
                return ""
            name = names[int(f["member"] * len(names)) % len(names)]
        if name not in c.members:
            return ""
        del c.members[name]
        c.zip_order = [n for n in c.zip_order if n != name]
        write_container(path, c)
        return f"missing {name}"
    if kind == "c_dir_for_file":
        if c.form == "file":
            # a directory where the zip is expected, holding the zip inside (not a package layout)
            with _REAL_OPEN(path, "rb") as fh:
                d = fh.read()
            os.remove(path)
            os.mkdir(path)
            with _REAL_OPEN(os.path.join(path, "document.zip"), "wb") as fh:
                fh.write(d)
            return "directory holding the zip"
        idx = os.path.join(path, "Index.zip")
        if os.path.isfile(idx):
            os.remove(idx)
            os.mkdir(idx)
            return "Index.zip is a directory"
        return ""
    if kind == "c_nested_index_damaged":
        # single file whose IWA members sit in a nested Index.zip that is damaged
        iwas = [n for n in c.zip_order if n.startswith("Index/")]
        if not iwas:
            return ""
        buf = io.BytesIO()
        with zipfile.ZipFile(buf, "w") as z:
            for n in iwas:
                z.writestr(zipfile.ZipInfo(n, date_time=(2020, 1, 1, 0, 0, 0)), c.members[n])
        inner = bytearray(buf.getvalue())
        if f["a"] < 0.3:
            del inner[int(f["b"] * len(inner)) :]
        elif f["a"] < 0.55:
            o = int(f["b"] * len(inner)) % len(inner)
            inner[o] ^= 0xFF
        elif f["a"] < 0.8:
            # the inner archive's end-of-central-directory record: bump the directory offset / size / counts
            field = [(16, 4), (12, 4), (10, 2), (8, 2)][f["n"] % 4]
            pos = len(inner) - 22 + field[0]
            val = int.from_bytes(inner[pos : pos + field[1]], "little")
            val = (val + (1 + f["n"]) * (1 if f["b"] < 0.7 else -1)) % (1 << (8 * field[1]))
            inner[pos : pos + field[1]] = val.to_bytes(field[1], "little")
        else:
            o = len(inner) - 22 + int(f["b"] * 22) % 22
            inner[o] ^= 1 << (f["n"] % 8)
        outer = io.BytesIO()
        with zipfile.ZipFile(outer, "w") as z:
            z.writestr(zipfile.ZipInfo("Index.zip", date_time=(2020, 1, 1, 0, 0, 0)), bytes(inner))
            for n in c.zip_order:
                if not n.startswith("Index/"):
                    z.writestr(zipfile.ZipInfo(n, date_time=(2020, 1, 1, 0, 0, 0)), c.members[n])
        if os.path.isdir(path):
            shutil.rmtree(path)
        with _REAL_OPEN(path, "wb") as fh:
            fh.write(outer.getvalue())
        return "nested Index.zip damaged"
    return ""
