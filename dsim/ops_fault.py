"""Operations that put foreign or damaged documents on the simulated disk (C17) and relayout (C06)."""

from __future__ import annotations

import os
import shutil

from dsim import corrupt
from dsim.sim import FIXTURE_DIR, Sim, op
from dsim.world import _REAL_OPEN


def _copy_in(sim: Sim, src: str, dst: str) -> None:
    sim.world.remove(dst)
    if os.path.isdir(src):
        shutil.copytree(src, dst)
    else:
        with _REAL_OPEN(src, "rb") as fi, _REAL_OPEN(dst, "wb") as fo:
            fo.write(fi.read())


@op("import_fixture")
def op_import_fixture(sim: Sim, a) -> str:
    """Copy a shipped document onto the simulated disk (content unknown to the models: 'foreign')."""
    slot = sim.slots[a["slot"]]
    if not sim.real:
        slot.status = "foreign"
        slot.model = None
        return "ok"
    src = os.path.join(FIXTURE_DIR, a["name"])
    if not os.path.exists(src):
        return "skip"
    _copy_in(sim, src, sim.slot_path(slot.name))
    slot.status = "foreign"
    slot.model = None
    slot.size = sim.world.tree_size(sim.slot_path(slot.name))
    return "ok"


@op("damage")
def op_damage(sim: Sim, a) -> str:
    slot = sim.slots[a["slot"]]
    if slot.status == "absent":
        return "skip"
    if not sim.real:
        slot.status = "corrupt"
        slot.model = None
        return "ok"
    path = sim.slot_path(slot.name)
    applied = []
    for f in a["faults"]:
        d = corrupt.apply_fault(path, f)
        if d:
            applied.append(d)
            fk = sim.stats.setdefault("faults", {})
            fk[f["kind"]] = fk.get(f["kind"], 0) + 1
    if not applied:
        return "skip"
    slot.status = "corrupt"
    slot.model = None
    sim.log.append([sim.step_no, "damaged", slot.name, applied, sim.world.tree_digest(path)])
    return "ok"


@op("open_other")
def op_open_other(sim: Sim, a) -> str:
    """Paths that are not documents at all: missing, wrong suffix, a plain directory."""
    if not sim.real:
        return "ok"
    kind = a["kind"]
    w = sim.world
    if kind == "missing":
        path = w.path("does-not-exist.numbers")
    elif kind == "suffix":
        slot = sim.slots[a["slot"]]
        if slot.status == "absent":
            return "skip"
        path = w.path("copy.numberz")
        _copy_in(sim, sim.slot_path(slot.name), path)
    elif kind == "suffix_none":
        slot = sim.slots[a["slot"]]
        if slot.status == "absent":
            return "skip"
        path = w.path("copy")
        _copy_in(sim, sim.slot_path(slot.name), path)
    else:
        path = w.path("plain-dir.numbers")
        w.remove(path)
        os.mkdir(path)
    res = sim.open_classified(path, {"other": kind})
    fk = sim.stats.setdefault("faults", {})
    fk["path_" + kind] = fk.get("path_" + kind, 0) + 1
    oc = sim.stats.setdefault("damaged_open", {})
    oc[res[0] if res[0] != "liberr" else res[1]] = oc.get(res[0] if res[0] != "liberr" else res[1], 0) + 1
    if res[0] == "opened" and kind in ("missing", "suffix", "suffix_none", "plain_dir"):
        sim.violation("C17.opened_non_document", {"kind": kind}, f"Document({os.path.basename(path)}) returned a document")
    return res[0] if res[0] != "liberr" else res[1]
