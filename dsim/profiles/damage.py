"""C17: damaged or foreign files fail only with the library's own error types."""

from __future__ import annotations

import json
import os

from dsim import allops  # noqa: F401
from dsim import corrupt
from dsim import values as V
from dsim.profiles.grid import Gen
from dsim.sim import FILE_SLOTS, PKG_SLOTS, Sim
from dsim.world import substream

PROPERTY = "C17"
LEVEL = "fault_enumeration"
RULE = (
    "one run = 2-5 attempts; each attempt puts a source document on the simulated disk (a shipped fixture copied in - valid ones and the "
    "deliberately bad ones - or a document built and saved in-run, file or package form), applies a sequence of 1-3 at-rest faults from the "
    "catalogue {truncate at 7 length classes, 1-8 bit flips / byte overwrites aimed at local headers, member payload, central directory or "
    "uniform; per-member damage through a VALID re-zip: empty, 1-3 bytes, cut at / one byte off a chunk boundary, chunk marker != 0, chunk "
    "length +-d, undecodable snappy payload, broken leading varint, broken ArchiveInfo, message length past the end, truncated/garbage-tailed "
    "stream; container faults: .iwph marker, malformed/missing plists, missing member, directory where a file is expected, empty directory, "
    "non-zip bytes, damaged nested Index.zip} and opens it; plus torn files left by crashes injected into saves (write-fault seam), and paths "
    "that are missing / wrongly suffixed / plain directories. Outcome classes: opened, FileError, FileFormatError, UnsupportedError, escape. "
    "An escape whose innermost numbers_parser frame is in iwork.py / iwafile.py / containers.py is a violation keyed by (exception class, function). "
    "In thorough the run index enumerates fixture x member-level fault kind with a low-discrepancy member selector. "
    "distinct = event-log digest (includes sha1 of every damaged file); non-trivial = >= 1 damaged/foreign open attempt classified"
)
ASSUMPTIONS = [
    "read-side I/O errors (EIO on read) are not injected: the statement lists damaged content, not failing media",
    "escapes whose innermost library frame is in model.py/document.py/cell.py (a decodable archive set lacking objects) are outside 'loading the container' and are only counted (probes c17_escape_outside_container_*)",
]

with open(os.path.join(os.path.dirname(os.path.dirname(__file__)), "fixtures.json")) as _fh:
    _SURVEY = json.load(_fh)
SMALL = sorted(k for k, v in _SURVEY.items() if (v.get("cells") or 0) <= 3000)
BAD = sorted(k for k, v in _SURVEY.items() if not v.get("opens"))
ALL_FIX = sorted(set(SMALL) | set(BAD))
PKG_FIX = {k for k, v in _SURVEY.items() if v["form"] == "package"}


def place_source(g: Gen, rng, slot_hint=None, fixture=None):
    """Emit ops that leave a source document in a slot; returns the slot name."""
    if fixture is not None or rng.random() < 0.6:
        name = fixture or rng.choice(ALL_FIX)
        slot = rng.choice(PKG_SLOTS if name in PKG_FIX else FILE_SLOTS)
        g.emit({"op": "import_fixture", "name": name, "slot": slot})
        return slot
    if not g.ms.docs:
        g.emit({"op": "new_doc", "rows": rng.randint(1, 6), "cols": rng.randint(1, 5)})
        for _ in range(rng.randint(0, 6)):
            g.emit({"op": "write", "d": 0, "s": 0, "t": 0, "r": rng.randrange(8), "c": rng.randrange(6), "v": V.enc(g.value())})
        if rng.random() < 0.3:
            g.emit({"op": "add_table", "d": 0, "s": 0, "rows": 3, "cols": 3})
    slot = rng.choice(FILE_SLOTS + PKG_SLOTS)
    g.emit({"op": "save", "d": 0, "slot": slot})
    return slot


def gen(seed: int, tier: str, idx=None):
    rng0 = substream(seed, "swarm")
    cfg = {"property": PROPERTY, "aspects": ["grid", "names"], "profile": "damage", "_mix": {"s": 2, "i": 2, "f": 1}, "_long": False}
    g = Gen(seed, tier, cfg)
    rng = g.rng
    attempts = rng0.randint(2, 5)
    # swarm: a random subset of fault kinds is enabled per run
    kinds = [k for k in corrupt.ALL_KINDS if k != "c_suffix" and rng0.random() < 0.7] or ["bitflip"]
    if tier == "thorough" and idx is not None and idx % 2 == 0:
        j = idx // 2
        fx = ALL_FIX[j % len(ALL_FIX)]
        kind = corrupt.MEMBER_KINDS[(j // len(ALL_FIX)) % len(corrupt.MEMBER_KINDS)]
        sel = ((j // (len(ALL_FIX) * len(corrupt.MEMBER_KINDS))) * 0.6180339887498949 + 0.11) % 1.0
        slot = place_source(g, rng, fixture=fx)
        f = corrupt.gen_fault(rng, [kind])
        f["member"] = sel
        f["b"] = 0.9
        g.emit({"op": "damage", "slot": slot, "faults": [f]})
        g.emit({"op": "restart", "slot": slot, "replace": False})
    for _ in range(attempts):
        r = rng.random()
        if r < 0.08:
            slot = place_source(g, rng)
            g.emit({"op": "open_other", "kind": rng.choice(["missing", "suffix", "suffix_none", "plain_dir"]), "slot": slot})
            continue
        if r < 0.2:
            # torn file from a crash in the middle of a save
            if not g.ms.docs:
                g.emit({"op": "new_doc", "rows": rng.randint(1, 6), "cols": rng.randint(1, 5)})
            slot = rng.choice(FILE_SLOTS + PKG_SLOTS)
            fault = {"kind": "crash", "cls": rng.choice(["zero", "head", "tail", "frac", "frac"]), "frac": rng.random(), "lost": rng.choice([0, rng.randint(1, 8192)])}
            g.emit({"op": "save", "d": 0, "slot": slot, "fault": fault})
            g.emit({"op": "restart", "slot": slot, "replace": False})
            continue
        slot = place_source(g, rng)
        nf = rng.choices([0, 1, 2, 3], [1, 6, 2, 1])[0]
        if nf:
            g.emit({"op": "damage", "slot": slot, "faults": [corrupt.gen_fault(rng, kinds) for _ in range(nf)]})
        g.emit({"op": "restart", "slot": slot, "replace": False})
    return cfg, g.ops


def setup(sim: Sim) -> None:
    pass


def nontrivial(result: dict) -> bool:
    st = result["stats"]
    return sum(st.get("damaged_open", {}).values()) >= 1


def evidence_extra(agg) -> dict:
    st = agg["stats"]
    return {"open_outcomes_of_damaged_or_foreign_documents": st.get("damaged_open", {}), "at_rest_faults_applied_by_kind": st.get("faults", {})}
