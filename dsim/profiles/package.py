"""C07: every saved package is structurally sound and referentially closed."""

from __future__ import annotations

import json
import os

from dsim import allops  # noqa: F401
from dsim import ops_pkg
from dsim import values as V
from dsim.profiles.grid import Gen, gen_fault, pick_shape
from dsim.profiles.look import gen_attrs, gen_border
from dsim.profiles.merge import gen_rect
from dsim.sim import ALL_SLOTS, Sim
from dsim.world import substream

PROPERTY = "C07"
RULE = (
    "one run = a seeded history mixing everything that creates or rewrites objects (writes of all value kinds, add/delete rows and columns, "
    "add_table incl. x/y, add_sheet, renames, merges, styles incl. background images, border strokes, captions, number/currency/percentage/"
    "scientific/base/fraction/datetime formats, tickbox/rating/slider/stepper/popup control cells, custom number/text/datetime formats, formulas set through cell.formula alone or on control cells) on new "
    "documents (shapes incl. 255/256/257/512 rows and 256/257 columns) and on loaded fixtures, with repeated saves, saves after an injected "
    "failed save (ENOSPC/EIO; permanent - the handle is dead - or transient - the handle stays usable for whoever still holds it), retries to the same target left as the failed attempt left it, often after the document shrank (a bulky text written before and removed after the failed save), save->reopen->save chains, file and package slots. An independent validator (own unzip + IWA codec + generated "
    "schemas; 30-150 ms) runs on EVERY file a save returned normally for: reopens; references of every added or rewritten object (body and "
    "archive-header lists) resolve in the package or were already dangling in the source; added identifiers unique and <= last_object_identifier; "
    "every added .iwa member has exactly one ComponentInfo naming an object it holds; new external references of the metadata resolve; per "
    "touched table: tiles cover exactly number_of_rows, one row record per row, row indices in range and unique, offsets count = columns, "
    ">= -1, strictly increasing, 4-byte aligned, in bounds, record lengths implied by their own flag words tile the buffer exactly (no overlap, no gap), "
    "cell_count = present offsets. Every 50th run is a lineage of 10-13 open/extend/save generations of one document. Every 5th run is a plain re-save of a shipped fixture; every 5th handles 2-3 documents (each shipped fixture in turn, and new documents, in both orders) in the one process, each getting add_table/add_sheet/caption plus other object-creating edits before its save. distinct = event-log digest; non-trivial = >= 1 package validated after >= 3 object-creating ops, or a fixture re-save"
)
ASSUMPTIONS = [
    "'sound' means the invariants the statement lists, not acceptance by Apple Numbers",
    "a reference with identifier 0 is the null reference (the reader treats it so) and is not judged",
    "fixtures that open with an unsupported-version warning (issue-17, issue-18, invalid-ver) are outside the quantifier, as in C02",
]

with open(os.path.join(os.path.dirname(os.path.dirname(__file__)), "fixtures.json")) as _fh:
    _SURVEY = json.load(_fh)
FIX = sorted(k for k, v in _SURVEY.items() if v.get("opens") and not any("unsupported version" in w for w in v.get("warnings", [])))
FIX_QUICK = [k for k in FIX if (_SURVEY[k].get("cells") or 0) <= 3000]


def emit_step(g, kind: str, d: int, fault_arm: bool) -> None:
    rng = g.rng
    if not g.ms.docs:
        g.emit({"op": "new_doc", "rows": 3, "cols": 3})
    m = g.ms.docs[d % len(g.ms.docs)].model
    s = rng.randrange(len(m.sheets))
    t = rng.randrange(len(m.sheets[s].tables))
    tm = m.sheets[s].tables[t]
    big = tm.ncells() > 1200
    if kind == "write":
        for _ in range(rng.randint(1, 5)):
            row, col = (g.index(tm.nrows), g.index(tm.ncols)) if rng.random() < 0.8 else (tm.nrows - 1 + rng.randint(0, 2), min(999, tm.ncols - 1 + rng.randint(0, 1)))
            if max(row + 1, tm.nrows) * max(col + 1, tm.ncols) > 3500:
                row, col = g.index(tm.nrows), g.index(tm.ncols)
            g.emit({"op": "write", "d": d, "s": s, "t": t, "r": row, "c": col, "v": V.enc(g.value())})
    elif kind in ("add_row", "add_col", "del_row", "del_col"):
        size = tm.nrows if "row" in kind else tm.ncols
        o = {"op": kind, "d": d, "s": s, "t": t, "n": 1 if big else g.count(260 if kind == "add_row" else 10)}
        other = tm.ncols if "row" in kind else tm.nrows
        if kind.startswith("add") and (size + o["n"]) * other > 3500:
            o["n"] = 1
        if rng.random() < 0.5:
            o["at"] = g.index(size)
        shrink_tiles = kind == "del_row" and tm.nrows > 256 and rng.random() < 0.6
        if shrink_tiles:
            # a table that spans several 256-row tiles shrinks to fewer tiles between two saves of the same Document
            g.emit({"op": "save", "d": d, "slot": rng.choice(ALL_SLOTS)})
            o["n"] = tm.nrows - rng.choice([256, 255, 200, 2])
            if "at" in o:
                o["at"] = rng.choice([0, 1, tm.nrows - o["n"]])
        g.emit(o)
        if shrink_tiles:
            g.emit({"op": "save", "d": d, "slot": rng.choice(ALL_SLOTS)})
    elif kind == "add_table":
        rows, cols = pick_shape(rng, rng.choice(["tiny", "small", "default"]))
        o = {"op": "add_table", "d": d, "s": s, "rows": rows, "cols": cols, "hr": min(rng.choice([0, 1, 2]), rows), "hc": min(rng.choice([0, 1]), cols)}
        if rng.random() < 0.4:
            o["x"], o["y"] = float(rng.randint(0, 900)), float(rng.randint(0, 900))
        g.emit(o)
    elif kind == "add_sheet":
        g.emit({"op": "add_sheet", "d": d, "rows": rng.randint(1, 6), "cols": rng.randint(1, 6)})
    elif kind == "rename":
        g.emit({"op": "rename_table", "d": d, "s": s, "t": t, "name": g.name()})
    elif kind == "merge":
        if not tm.hedge and not tm.vedge:
            g.emit({"op": "merge", "d": d, "s": s, "t": t, "rects": [gen_rect(g, tm, rng)]})
    elif kind == "style":
        g.emit({"op": "add_style", "d": d, "attrs": gen_attrs(rng), "name": None})
        g.emit({"op": "set_style", "d": d, "s": s, "t": t, "r": g.index(tm.nrows), "c": g.index(tm.ncols), "style": rng.randrange(12), "via": rng.choice(["set", "write"]), "v": V.enc(g.value())})
    elif kind == "border":
        if not tm.merges:
            g.emit(gen_border(g, rng, tm, s=s, t=t))
    elif kind == "caption":
        g.emit({"op": "set_caption", "d": d, "s": s, "t": t, "text": rng.choice(["Caption", "c", "Ünï \U0001F600"]), "enabled": rng.random() < 0.7})
    elif kind == "format":
        rr, cc = rng.randrange(tm.nrows), rng.randrange(tm.ncols)
        if rng.random() < 0.7:
            g.emit({"op": "write", "d": d, "s": s, "t": t, "r": rr, "c": cc, "v": V.enc(V.gen_value(rng, {"i": 3, "f": 3, "b": 1, "s": 1, "dt": 1}, False))})
        g.emit({"op": "set_format", "d": d, "s": s, "t": t, "r": rr, "c": cc, "k": rng.randrange(1000)})
    elif kind == "formula":
        rr, cc = rng.randrange(tm.nrows), rng.randrange(tm.ncols)
        g.emit({"op": "write", "d": d, "s": s, "t": t, "r": rr, "c": cc, "v": V.enc(V.gen_value(rng, {"i": 3, "f": 3}, False))})
        g.emit({"op": "set_formula", "d": d, "s": s, "t": t, "r": rr, "c": cc, "k": rng.randrange(1000)})
        if rng.random() < 0.5:
            g.emit({"op": "set_format", "d": d, "s": s, "t": t, "r": rr, "c": cc, "k": rng.randrange(1000),
                    "kind": rng.choice(["slider", "stepper", "popup_num", "currency", "number", "rating"])})
    elif kind == "custom_format":
        rr, cc = rng.randrange(tm.nrows), rng.randrange(tm.ncols)
        if rng.random() < 0.7:
            g.emit({"op": "write", "d": d, "s": s, "t": t, "r": rr, "c": cc, "v": V.enc(V.gen_value(rng, {"i": 3, "f": 3, "s": 2, "dt": 1}, False))})
        g.emit({"op": "custom_format", "d": d, "s": s, "t": t, "r": rr, "c": cc, "k": rng.randrange(1000),
                "name": rng.choice([None, "CF " + str(rng.randrange(5))])})
    elif kind == "save":
        o = {"op": "save", "d": d, "slot": rng.choice(ALL_SLOTS)}
        if fault_arm and rng.random() < 0.5:
            o["fault"] = gen_fault(rng)
            o["fault"]["kind"] = "write_error"
            o["fault"].pop("lost", None)
            o["fault"]["transient"] = rng.random() < 0.5
        if rng.random() < 0.5:
            o["wipe"] = False
        ballast = None
        if o.get("fault") and rng.random() < 0.5:
            # a bulky, incompressible text that is removed again after the failed save: the retry then writes a file
            # that is SHORTER than the point the failed attempt had reached
            ballast = (g.index(tm.nrows), g.index(tm.ncols))
            text = "".join(rng.choice("abcdefghijklmnopqrstuvwxyz0123456789 ") for _ in range(rng.choice([3000, 12000, 40000])))
            g.emit({"op": "write", "d": d, "s": s, "t": t, "r": ballast[0], "c": ballast[1], "v": V.enc(text)})
            o["fault"]["cls"] = "frac"
            o["fault"]["frac"] = 0.55 + 0.45 * rng.random()
        g.emit(o)
        if ballast is not None:
            g.emit({"op": "write", "d": d, "s": s, "t": t, "r": ballast[0], "c": ballast[1], "v": V.enc("")})
        if o.get("fault") and (ballast is not None or rng.random() < 0.6):
            # retry after the failed save: often after the document SHRANK (long texts replaced by short ones, rows
            # deleted), to the same target, which is left as the failed attempt left it
            if rng.random() < 0.7:
                if rng.random() < 0.5 and tm.nrows > 2:
                    g.emit({"op": "del_row", "d": d, "s": s, "t": t, "n": max(1, tm.nrows // 2)})
                else:
                    for _ in range(rng.randint(1, 4)):
                        g.emit({"op": "write", "d": d, "s": s, "t": t, "r": g.index(tm.nrows), "c": g.index(tm.ncols), "v": V.enc(rng.choice(["", "s", 1]))})
            g.emit({"op": "save", "d": d, "slot": o["slot"], "wipe": False})
            g.emit({"op": "restart", "d": d, "slot": o["slot"]})
        if rng.random() < 0.3:
            g.emit({"op": "save", "d": d, "slot": rng.choice(ALL_SLOTS)})
    elif kind == "restart":
        slots = [n for n, sl in g.ms.slots.items() if sl.status == "good"]
        if slots:
            g.emit({"op": "restart", "d": d, "slot": rng.choice(slots)})


def gen(seed: int, tier: str, idx=None):
    rng0 = substream(seed, "swarm")
    cfg = {"property": PROPERTY, "aspects": ["grid", "names", "merges", "look"], "profile": "package", "grid_prefix": "C03",
           "_mix": {"s": 3, "i": 2, "f": 2, "b": 1, "dt": 1, "td": 1}, "_long": False}
    g = Gen(seed, tier, cfg)
    rng = g.rng
    pool = FIX if tier == "thorough" else FIX_QUICK
    if idx is not None and idx % 5 == 4:
        name = pool[(idx // 5) % len(pool)]
        g.emit({"op": "open_fixture", "name": name})
        slot = rng.choice(ALL_SLOTS)
        g.emit({"op": "save", "d": 0, "slot": slot})
        if rng.random() < 0.5:
            g.emit({"op": "restart", "d": 0, "slot": slot})
            g.emit({"op": "save", "d": 0, "slot": rng.choice(ALL_SLOTS)})
        cfg["fixture_resave"] = True
        return cfg, g.ops
    if idx is not None and idx % 5 == 3:
        # control cells and formats on EVERY table of a shipped document (tables keep their lookup lists in differently
        # named archives; one table of issue-9 keeps its control-cell list in the unsuffixed Index/Tables/DataList.iwa)
        name = pool[(idx // 5) % len(pool)]
        if (_SURVEY[name].get("cells") or 0) <= 3000:
            g.emit({"op": "open_fixture", "name": name})
            ntab = min(_SURVEY[name].get("tables") or 1, 10)
            kinds = ["popup_num", "slider", "stepper", "rating", "currency", "number"]
            for t in range(ntab):
                for s in range(min(_SURVEY[name].get("sheets") or 1, 6)):
                    pass
            for t in range(ntab):
                # addressed through (sheet t, table t): pick_table wraps both modulo the real counts, walking the diagonal;
                # a second pass below walks (sheet 0, table t)
                for (ss, tt) in ((t, t), (0, t)):
                    g.emit({"op": "write", "d": 0, "s": ss, "t": tt, "r": 0, "c": 0, "v": V.enc("pop")})
                    g.emit({"op": "set_format", "d": 0, "s": ss, "t": tt, "r": 0, "c": 0, "k": rng.randrange(1000)})
                    g.emit({"op": "write", "d": 0, "s": ss, "t": tt, "r": 0, "c": 0, "v": V.enc(2.5)})
                    g.emit({"op": "set_format", "d": 0, "s": ss, "t": tt, "r": 0, "c": 0, "k": rng.randrange(1000), "kind": rng.choice(kinds)})
            slot = rng.choice(ALL_SLOTS)
            g.emit({"op": "save", "d": 0, "slot": slot})
            g.emit({"op": "restart", "d": 0, "slot": slot})
            cfg["fixture_controls"] = True
            return cfg, g.ops
    if idx is not None and idx % 50 == 11:
        # a long lineage: the same document opened, extended and saved 10-13 times in a row (the identifier base rises
        # with every generation; names of added archives carry identifiers of growing length)
        cfg["lineage"] = True
        rows, cols = pick_shape(rng, "tiny")
        g.emit({"op": "new_doc", "rows": rows, "cols": cols, "hr": min(1, rows), "hc": min(1, cols)})
        slots = list(ALL_SLOTS)
        for cycle in range(rng.randint(10, 13)):
            for _ in range(rng.choice([1, 1, 2, 2])):
                m = g.ms.docs[0].model
                if m.ncells() > 600:
                    break
                if rng.random() < 0.8:
                    g.emit({"op": "add_table", "d": 0, "s": rng.randrange(len(m.sheets)), "rows": rng.randint(1, 3), "cols": rng.randint(1, 3), "hr": 0, "hc": 0})
                else:
                    g.emit({"op": "add_sheet", "d": 0, "rows": rng.randint(1, 3), "cols": rng.randint(1, 3)})
                m = g.ms.docs[0].model
                s2 = rng.randrange(len(m.sheets))
                t2 = rng.randrange(len(m.sheets[s2].tables))
                g.emit({"op": "write", "d": 0, "s": s2, "t": t2, "r": 0, "c": 0, "v": V.enc(rng.choice(["x", 1.5, True, "lineage"]))})
            slot = slots[cycle % len(slots)]
            g.emit({"op": "save", "d": 0, "slot": slot})
            g.emit({"op": "restart", "d": 0, "slot": slot})
        return cfg, g.ops
    if idx is not None and idx % 5 == 2:
        # several documents handled by one process, one after another or side by side: whatever the library remembers
        # from one document (memoised identifiers, shared lookup lists, id counters) must not reach the package of the next
        small = [k for k in pool if (_SURVEY[k].get("cells") or 0) <= 1300]
        ndocs = rng.choice([2, 2, 3])
        creating = ["add_table", "add_sheet", "caption", "style", "format", "custom_format", "formula", "write", "merge", "border", "add_row"]
        first_fixture = small[(idx // 5) % len(small)]
        order = rng.random() < 0.5
        slots = list(ALL_SLOTS)
        rng.shuffle(slots)
        for k in range(ndocs):
            from_fixture = (k == 0) == order if k < 2 else rng.random() < 0.5
            if from_fixture:
                g.emit({"op": "open_fixture", "name": first_fixture if k < 2 else rng.choice(small)})
            else:
                rows, cols = pick_shape(rng, rng.choice(["tiny", "small", "default"]))
                g.emit({"op": "new_doc", "rows": rows, "cols": cols, "hr": min(1, rows), "hc": min(1, cols)})
            d = len(g.ms.docs) - 1
            must = rng.choice(["add_table", "add_sheet", "caption"])
            kinds = [must] + [rng.choice(creating) for _ in range(rng.randint(1, 5))]
            rng.shuffle(kinds)
            for kind in kinds:
                emit_step(g, kind, d, False)
            g.emit({"op": "save", "d": d, "slot": slots[k]})
            if rng.random() < 0.4 and len(g.ms.docs) > 1:
                g.emit({"op": "drop", "d": d})
        for k in range(ndocs):
            if rng.random() < 0.5:
                g.emit({"op": "restart", "d": 0, "slot": slots[k]})
                g.emit({"op": "save", "d": 0, "slot": slots[k]})
        cfg["multi_document"] = True
        return cfg, g.ops
    fault_arm = rng0.random() < 0.4
    if rng0.random() < 0.2:
        g.emit({"op": "open_fixture", "name": rng0.choice([k for k in FIX_QUICK if (_SURVEY[k].get("cells") or 0) <= 400])})
    else:
        rows, cols = pick_shape(rng0, rng0.choices(["tiny", "small", "default", "tile", "wide"], [2, 4, 2, 1.5, 0.7])[0])
        g.emit({"op": "new_doc", "rows": rows, "cols": cols, "hr": min(rng0.choice([0, 1, 1, 2]), rows), "hc": min(rng0.choice([0, 1, 1]), cols)})
    steps = rng0.randint(6, 34 if tier == "thorough" else 24)
    weights = {"write": 14, "add_row": 3, "add_col": 3, "del_row": 2, "del_col": 2, "add_table": 3, "add_sheet": 1.5, "rename": 1, "merge": 3,
               "style": 4, "border": 4, "caption": 2, "format": 9, "custom_format": 3, "formula": 3, "save": 6, "restart": 3}
    for k in list(weights):
        if k not in ("write", "save") and rng0.random() < 0.3:
            weights[k] = 0
    names, wts = list(weights), list(weights.values())
    for _ in range(steps):
        emit_step(g, rng.choices(names, wts)[0], 0, fault_arm)
    if g.ms.docs:
        slot = rng.choice(ALL_SLOTS)
        g.emit({"op": "save", "d": 0, "slot": slot})
        g.emit({"op": "restart", "d": 0, "slot": slot})
        if rng.random() < 0.5:
            g.emit({"op": "save", "d": 0, "slot": rng.choice(ALL_SLOTS)})
    return cfg, g.ops


def setup(sim: Sim) -> None:
    sim.doc_hooks.append(ops_pkg.doc_hook)
    sim.save_hooks.append(ops_pkg.save_hook)


def nontrivial(result: dict) -> bool:
    st = result["stats"]
    ops = st["ops"]
    creating = sum(ops.get(k, 0) for k in ("write", "add_table", "add_sheet", "merge", "add_style", "border", "set_caption", "set_format", "custom_format", "set_formula", "add_row", "add_col"))
    return st.get("validator", {}).get("packages", 0) >= 1 and (creating >= 3 or ops.get("open_fixture", 0) >= 1)


def evidence_extra(agg) -> dict:
    return {"validator_totals": agg["stats"].get("validator", {})}
