"""C02: re-saving an unmodified document preserves everything the library reads."""

from __future__ import annotations

import json
import os

from dsim import allops  # noqa: F401
from dsim import values as V
from dsim.profiles.grid import Gen
from dsim.profiles.look import gen_attrs, gen_border
from dsim.sim import ALL_SLOTS, Sim
from dsim.world import substream

PROPERTY = "C02"
RULE = (
    "one run = one source document (run index enumerates every shipped fixture that opens without an unsupported-version warning, both "
    "container forms, then the bundled template; 30% of runs instead build a document in-run through the editing API: values, tables, sheets, "
    "styles, borders, merges, formats) x a seeded schedule of read-only accessor calls (formula, formatted_value, style, border, row_height, "
    "col_width, size, merge_ranges; one cell or whole table) placed before the saves or not x 1-3 open/save cycles x file or package form. "
    "A pristine twin opened from the source and never saved yields the expected deep snapshot (sheet/table order and names; per cell: class, "
    "typed value, formula text, formatted value, bullets, hyperlinks, merge state); every reopened copy (read through a probe instance) must "
    "equal it, cycle n+1 must equal cycle n, and neither save nor re-read may raise. Excused exactly as the statement says: cells that are "
    "ErrorCell in the source, and tables the library warns are pivot tables. quick caps formula/formatted reads at 400 cells per table "
    "(classes, values, merge state always complete). distinct = event-log digest (includes the sha1 of every copy); non-trivial = >= 1 completed cycle compared"
)
ASSUMPTIONS = [
    "an accessor that raises on the copy but not on the source is a violation; one that raises on both is recorded as the observation",
]

with open(os.path.join(os.path.dirname(os.path.dirname(__file__)), "fixtures.json")) as _fh:
    _SURVEY = json.load(_fh)
FIX = sorted(k for k, v in _SURVEY.items() if v.get("opens") and not any("unsupported version" in w for w in v.get("warnings", [])))
FIX_QUICK = [k for k in FIX if (_SURVEY[k].get("cells") or 0) <= 2500]
OBS_KINDS = ["formula", "formatted_value", "style", "border", "row_height", "col_width", "size", "merge_ranges"]


def gen(seed: int, tier: str, idx=None):
    rng0 = substream(seed, "swarm")
    cfg = {"property": PROPERTY, "aspects": ["grid", "names"], "profile": "resave", "_mix": {"s": 3, "i": 2, "f": 2, "b": 1, "dt": 1, "td": 1}, "_long": False}
    g = Gen(seed, tier, cfg)
    rng = g.rng
    pool = FIX if tier == "thorough" else FIX_QUICK
    n = rng.randint(0, 3)
    obs = [{"kind": rng.choice(OBS_KINDS), "scope": rng.choice(["cell", "table", "table"]), "s": rng.randrange(4), "t": rng.randrange(4),
            "r": rng.randrange(60), "c": rng.randrange(20)} for _ in range(n)]
    common = {"observers": obs, "cycles": rng.choice([1, 2, 2, 3]), "package": rng.random() < 0.25, "observe_each_cycle": rng.random() < 0.5,
              "save_twice": rng.choice([False, False, True, "other_form"]),
              "deep_cap": None if tier == "thorough" else 400}
    in_run = (idx is not None and idx % 10 in (3, 6, 9)) or (idx is None and rng0.random() < 0.3)
    if not in_run:
        j = (idx - idx // 10 * 3 - (1 if idx % 10 > 3 else 0) - (1 if idx % 10 > 6 else 0)) if idx is not None else rng0.randrange(10_000)
        name = pool[j % len(pool)]
        g.emit({"op": "resave_cycle", "name": name, **common})
        return cfg, g.ops
    # a document the library itself produces through its editing API
    cfg["aspects"] = ["grid", "names", "merges", "look"]
    g.ms.aspects = set(cfg["aspects"])
    rows, cols = rng0.randint(2, 9), rng0.randint(2, 7)
    if rng0.random() < 0.2:
        # tables that end exactly at, just before or just after a 256-row tile boundary, with data in their last rows
        rows, cols = rng0.choice([255, 256, 257, 512]), rng0.randint(1, 2)
    g.emit({"op": "new_doc", "rows": rows, "cols": cols, "hr": rng0.choice([0, 1, 1]), "hc": rng0.choice([0, 1])})
    if rows >= 255:
        for r in (rows - 1, rows - 2, rows - 256 if rows > 256 else 0, 255 if rows > 255 else rows - 3):
            g.emit({"op": "write", "d": 0, "s": 0, "t": 0, "r": max(0, r), "c": 0, "v": V.enc(g.value())})
    for _ in range(rng0.randint(3, 18)):
        m = g.ms.docs[0].model
        s = rng.randrange(len(m.sheets))
        t = rng.randrange(len(m.sheets[s].tables))
        tm = m.sheets[s].tables[t]
        k = rng.choices(["write", "add_table", "add_sheet", "style", "border", "merge", "add_row", "add_col", "format", "custom_format", "formula"], [10, 1, 1, 2, 3, 2.5, 1, 1, 4, 1.5, 2.5])[0]
        if k == "write":
            g.emit({"op": "write", "d": 0, "s": s, "t": t, "r": rng.randrange(tm.nrows + 1), "c": rng.randrange(tm.ncols + 1), "v": V.enc(g.value())})
        elif k == "add_table":
            g.emit({"op": "add_table", "d": 0, "s": s, "rows": rng.randint(1, 5), "cols": rng.randint(1, 5)})
        elif k == "add_sheet":
            g.emit({"op": "add_sheet", "d": 0, "rows": rng.randint(1, 5), "cols": rng.randint(1, 5)})
        elif k == "style":
            g.emit({"op": "add_style", "d": 0, "attrs": gen_attrs(rng), "name": None})
            g.emit({"op": "set_style", "d": 0, "s": s, "t": t, "r": rng.randrange(tm.nrows), "c": rng.randrange(tm.ncols), "style": rng.randrange(8)})
        elif k == "border":
            g.emit(gen_border(g, rng, tm, s=s, t=t))
        elif k == "merge":
            from dsim.profiles.merge import gen_rect

            g.emit({"op": "merge", "d": 0, "s": s, "t": t, "rects": [gen_rect(g, tm, rng)]})
        elif k == "add_row":
            g.emit({"op": "add_row", "d": 0, "s": s, "t": t, "n": rng.randint(1, 3)})
        elif k == "formula":
            # cells that carry a formula id, alone or together with a control/format id
            rr, cc = rng.randrange(tm.nrows), rng.randrange(tm.ncols)
            g.emit({"op": "write", "d": 0, "s": s, "t": t, "r": rr, "c": cc, "v": V.enc(V.gen_value(rng, {"i": 3, "f": 3}, False))})
            g.emit({"op": "set_formula", "d": 0, "s": s, "t": t, "r": rr, "c": cc, "k": rng.randrange(1000)})
            if rng.random() < 0.5:
                g.emit({"op": "set_format", "d": 0, "s": s, "t": t, "r": rr, "c": cc, "k": rng.randrange(1000),
                        "kind": rng.choice(["slider", "stepper", "popup_num", "currency", "number", "rating"])})
        elif k in ("format", "custom_format"):
            rr, cc = rng.randrange(tm.nrows), rng.randrange(tm.ncols)
            g.emit({"op": "write", "d": 0, "s": s, "t": t, "r": rr, "c": cc, "v": V.enc(V.gen_value(rng, {"i": 3, "f": 3, "b": 1, "s": 1, "dt": 1}, False))})
            g.emit({"op": "set_format" if k == "format" else "custom_format", "d": 0, "s": s, "t": t, "r": rr, "c": cc, "k": rng.randrange(1000), "name": None})
        else:
            g.emit({"op": "add_col", "d": 0, "s": s, "t": t, "n": rng.randint(1, 2)})
    if rng0.random() < 0.15:
        # a merged range spanning every column of two or three rows (its lower rows hold placeholders only), data below it
        tm = g.ms.docs[0].model.sheets[0].tables[0]
        if tm.nrows >= 4 and not tm.merges and not tm.hedge and not tm.vedge and not tm.styles:
            r0 = rng.randrange(0, tm.nrows - 3)
            g.emit({"op": "merge", "d": 0, "s": 0, "t": 0, "rects": [[r0, 0, r0 + rng.randint(1, 2), tm.ncols - 1]]})
            for rr in range(r0 + 3, tm.nrows):
                g.emit({"op": "write", "d": 0, "s": 0, "t": 0, "r": rr, "c": rng.randrange(tm.ncols), "v": V.enc(g.value())})
    slot = rng.choice(ALL_SLOTS)
    g.emit({"op": "save", "d": 0, "slot": slot})
    g.emit({"op": "resave_cycle", "slot": slot, **common})
    return cfg, g.ops


def setup(sim: Sim) -> None:
    pass


def nontrivial(result: dict) -> bool:
    st = result["stats"]
    return st["ops"].get("resave_cycle", 0) >= 1 and st["outcomes"].get("ok", 0) >= 1
