"""C12: merged regions are reported consistently, immediately and after reload."""

from __future__ import annotations

from dsim import allops  # noqa: F401
from dsim import ops_merge
from dsim import values as V
from dsim.profiles.grid import Gen
from dsim.sim import ALL_SLOTS, Sim
from dsim.world import substream

PROPERTY = "C12"
DECOY = 0.25  # share of runs that edit a second document first and keep it open (runner.with_decoy)
RULE = (
    "one run = a seeded history over one or two tables of merge(rect | list of rects; 1xN, Nx1, NxM, touching, at edges; kept disjoint), "
    "writes outside placeholders, add/delete rows and columns before, inside and after rectangles, add_table, saves and restarts (new documents "
    "and fixtures that ship with merges). After EVERY op and on every reopened file: anchor is_merged+size, every other cell of the rectangle is a "
    "valueless MergedCell naming the rectangle, cells outside are plain, merge_ranges equals the model's set; at restart the picture the open "
    "document showed when it was saved must equal the reopened picture. For edits strictly before/after a rectangle the model shifts it; for an "
    "insertion inside or a cut only self-consistency and open==saved are required. distinct = event-log digest; non-trivial = >= 1 merge and >= 1 completed save->restart"
)
ASSUMPTIONS = [
    "bound: writes into non-anchor cells of a rectangle are not generated; rectangles are disjoint by construction",
    "bound: after an insertion inside a rectangle or a deletion cutting one the expected rectangle is unspecified: only self-consistency and open==saved are asserted for that table",
]
MERGED_FIXTURES = ["test-titles.numbers", "test-9.numbers", "issue-77.numbers", "test-4.numbers"]


def gen_rect(g, tm, rng):
    r0, c0 = rng.randrange(tm.nrows), rng.randrange(tm.ncols)
    shape = rng.choice(["row", "col", "box", "box", "edge", "fullwidth", "fullheight"])
    if shape == "fullwidth":
        # every column of 1..3 rows: the rows below the anchor row consist of placeholders only
        return [r0, 0, r0 + rng.randint(0, 2), tm.ncols - 1]
    if shape == "fullheight":
        return [0, c0, tm.nrows - 1, c0 + rng.randint(0, 1)]
    if shape == "row":
        return [r0, c0, r0, c0 + rng.randint(1, 3)]
    if shape == "col":
        return [r0, c0, r0 + rng.randint(1, 3), c0]
    if shape == "edge":
        r0 = rng.choice([0, max(0, tm.nrows - 2)])
        c0 = rng.choice([0, max(0, tm.ncols - 2)])
    return [r0, c0, r0 + rng.randint(1, 2), c0 + rng.randint(1, 2)]


def gen(seed: int, tier: str, idx=None):
    rng0 = substream(seed, "swarm")
    cfg = {"property": PROPERTY, "aspects": ["grid", "names", "merges"], "profile": "merge", "_mix": {"s": 2, "i": 2, "f": 1, "b": 1}, "_long": False}
    g = Gen(seed, tier, cfg)
    rng = g.rng
    big = rng0.random()
    if big < 0.06:
        # ranges at large coordinates: rows beyond 255 / 4095 / 65535-ish packing boundaries, columns beyond 255
        shape = rng0.choice(["tall", "tall", "wide"])
        if shape == "tall":
            n = rng0.choice([300, 4096, 4100, 5000])
            g.emit({"op": "new_doc", "rows": n, "cols": rng0.randint(1, 2), "hr": 0, "hc": 0})
            tm = g.ms.docs[0].model.sheets[0].tables[0]
            r0 = rng0.choice([n - 3, n - 2, max(0, n - 10), 255, 256, min(n - 2, 4095), min(n - 2, 4096)])
            rects = [[r0, 0, min(n - 1, r0 + rng0.randint(0, 2)), tm.ncols - 1 if rng0.random() < 0.5 else 0]]
            if rng0.random() < 0.4:
                rects.append([1, 0, min(n - 1, 1 + rng0.choice([254, 255, 256, 4095, 4096, 4198])), 0])
        else:
            n = rng0.choice([257, 300])
            g.emit({"op": "new_doc", "rows": 2, "cols": n, "hr": 0, "hc": 0})
            c0 = rng0.choice([254, 255, 256, n - 3])
            rects = [[0, c0, rng0.randint(0, 1), min(n - 1, c0 + rng0.randint(0, 2))]]
        g.emit({"op": "merge", "d": 0, "s": 0, "t": 0, "rects": rects, "as_list": True})
        g.emit({"op": "write", "d": 0, "s": 0, "t": 0, "r": 0, "c": 0, "v": V.enc("top")})
        slot = rng.choice(ALL_SLOTS)
        g.emit({"op": "save", "d": 0, "slot": slot})
        g.emit({"op": "restart", "d": 0, "slot": slot})
        return cfg, g.ops
    if rng0.random() < 0.15:
        g.emit({"op": "open_fixture", "name": rng0.choice(MERGED_FIXTURES)})
    else:
        g.emit({"op": "new_doc", "rows": rng0.randint(2, 9), "cols": rng0.randint(2, 7), "hr": rng0.choice([0, 1]), "hc": rng0.choice([0, 1])})
    steps = rng0.randint(4, 26 if tier == "thorough" else 18)
    weights = {"merge": 8, "write": 8, "add_row": 3, "add_col": 3, "del_row": 2, "del_col": 2, "save": 3, "restart": 3, "add_table": 1}
    if rng0.random() < 0.3:
        for k in ("add_row", "add_col", "del_row", "del_col"):
            weights[k] = 0
    names, wts = list(weights), list(weights.values())
    # every run starts with at least one merge
    tm = g.ms.docs[0].model.sheets[0].tables[0]
    g.emit({"op": "merge", "d": 0, "s": 0, "t": 0, "rects": [gen_rect(g, tm, rng)]})
    for _ in range(steps):
        kind = rng.choices(names, wts)[0]
        m = g.ms.docs[0].model
        s = rng.randrange(len(m.sheets))
        t = rng.randrange(len(m.sheets[s].tables))
        tm = m.sheets[s].tables[t]
        if kind == "merge":
            n = rng.choices([1, 2, 3], [6, 2, 1])[0]
            g.emit({"op": "merge", "d": 0, "s": s, "t": t, "rects": [gen_rect(g, tm, rng) for _ in range(n)], "as_list": rng.random() < 0.3})
        elif kind == "write":
            for _ in range(rng.randint(1, 4)):
                g.emit({"op": "write", "d": 0, "s": s, "t": t, "r": rng.randrange(tm.nrows + 1), "c": rng.randrange(tm.ncols + 1), "v": V.enc(g.value()), "nota": rng.choice(["rc", "a1"])})
        elif kind in ("add_row", "add_col", "del_row", "del_col"):
            size = tm.nrows if "row" in kind else tm.ncols
            o = {"op": kind, "d": 0, "s": s, "t": t, "n": rng.choice([1, 1, 2])}
            if rng.random() < 0.8:
                # aim around the rectangles: just before, at, inside, just after
                if tm.merges and rng.random() < 0.7:
                    mm = rng.choice(tm.merges)
                    lo, hi = (mm[0], mm[2]) if "row" in kind else (mm[1], mm[3])
                    o["at"] = max(0, min(size - 1, rng.choice([lo - 1, lo, lo + 1, hi, hi + 1, 0])))
                else:
                    o["at"] = g.index(size)
            g.emit(o)
        elif kind == "add_table":
            g.emit({"op": "add_table", "d": 0, "s": s, "rows": rng.randint(2, 5), "cols": rng.randint(2, 5)})
        elif kind == "save":
            g.emit({"op": "save", "d": 0, "slot": rng.choice(ALL_SLOTS)})
        elif kind == "restart":
            slots = [n for n, sl in g.ms.slots.items() if sl.status == "good"]
            if slots:
                g.emit({"op": "restart", "d": 0, "slot": rng.choice(slots)})
    slot = rng.choice(ALL_SLOTS)
    g.emit({"op": "save", "d": 0, "slot": slot})
    g.emit({"op": "restart", "d": 0, "slot": slot})
    return cfg, g.ops


def setup(sim: Sim) -> None:
    sim.save_hooks.append(ops_merge.save_hook)
    sim.cfg.setdefault("_reopen_checks", []).append(ops_merge.reopen_check)


def nontrivial(result: dict) -> bool:
    st = result["stats"]
    return st["ops"].get("merge", 0) >= 1 and st["restarts_ok"] >= 1
