"""C19: sheet and table collections."""

from __future__ import annotations

from dsim import allops  # noqa: F401
from dsim.ops_addr import check_unique_names
from dsim.profiles.grid import FIXTURES, Gen, NAME_POOL, pick_shape
from dsim.sim import ALL_SLOTS, Sim
from dsim.world import substream

PROPERTY = "C19"
DECOY = 0.25  # share of runs that edit a second document first and keep it open (runner.with_decoy)
RULE = (
    "one run = a seeded history of add_sheet/add_table (named, unnamed, case-variant duplicates, names that look generated, empty and "
    "non-ASCII names), renames, lookups by every name and by every index in [-2n-k, 2n+k], saves and restarts; oracles: unique names "
    "after every op, fresh generated names, duplicate refused with IndexError and nothing changed, lookup by name/index against the "
    "model's ordered list, order and names equal after reopen. distinct = event-log digest; non-trivial = >= 2 adds, >= 1 lookup and >= 1 completed save->restart"
)

LOOKALIKE = ["Table 1", "Table 2", "table 2", "TABLE 3", "Table 4", "Sheet 1", "Sheet 2", "sheet 3", "SHEET 2", "Table 10", "Table  2", "Table 2 ", "Sheet 02",
             "Caf\u00e9", "Cafe\u0301", "\u00c5", "\u212b", "A\u030a"]


# (a, b): the first four are equal when lower-cased (a duplicate), the others only look alike (both must be accepted)
CASE_PAIRS = [("\u0130stanbul", "i\u0307stanbul"), ("\u0130", "i\u0307"), ("STRA\u00dfE", "stra\u00dfe"),
              ("\u03a3\u038a\u03a3\u03a5\u03a6\u039f\u03a3", "\u03c3\u03af\u03c3\u03c5\u03c6\u03bf\u03c2"),
              ("Stra\u00dfe", "STRASSE"), ("\ufb01n", "FIN"), ("\u01f0", "J\u030c"), ("\u1e9e", "ss")]


def gen(seed: int, tier: str, idx=None):
    rng0 = substream(seed, "swarm")
    cfg = {"property": PROPERTY, "aspects": ["grid", "names"], "profile": "names", "_mix": {"s": 1, "i": 1}, "_long": False}
    g = Gen(seed, tier, cfg)
    rng = g.rng
    if rng0.random() < 0.15:
        g.emit({"op": "open_fixture", "name": rng0.choice(FIXTURES)})
    else:
        g.emit({"op": "new_doc", "rows": rng0.randint(1, 4), "cols": rng0.randint(1, 4),
                "sheet": rng0.choice(["Sheet 1", "Sheet 1", "sheet 2", "S"]), "table": rng0.choice(["Table 1", "Table 1", "table 2", "Table 3", "T"])})
    steps = rng0.randint(5, 30 if tier == "thorough" else 22)
    if substream(seed, "casepairs").random() < 0.2:
        # two names that are (or are just not) equal ignoring case in an unusual way: lower-casing changes the length, the
        # case-folded form differs from the lower-cased one, final sigma, ligatures - added or renamed into one collection
        r2 = substream(seed, "casepairs2")
        a_, b_ = r2.choice(CASE_PAIRS)
        if r2.random() < 0.5:
            a_, b_ = b_, a_
        if r2.random() < 0.6:
            g.emit({"op": "add_table", "d": 0, "s": 0, "rows": 1, "cols": 1, "hr": 0, "hc": 0, "name": a_})
            if r2.random() < 0.3:
                g.emit({"op": "add_table", "d": 0, "s": 0, "rows": 1, "cols": 1, "hr": 0, "hc": 0})
                g.emit({"op": "rename_table", "d": 0, "s": 0, "t": 1, "name": a_})
            g.emit({"op": "add_table", "d": 0, "s": 0, "rows": 1, "cols": 1, "hr": 0, "hc": 0, "name": b_})
        else:
            g.emit({"op": "add_sheet", "d": 0, "rows": 1, "cols": 1, "name": a_})
            g.emit({"op": "add_sheet", "d": 0, "rows": 1, "cols": 1, "name": b_})
        g.emit({"op": "lookup", "d": 0, "s": 0})
    if rng0.random() < 0.12:
        # a crowded collection: automatic names must stay fresh past 'Table 9' / 'Sheet 9' (two-digit numbers)
        cfg["max_items"] = 14
        g.ms.cfg["max_items"] = 14
        kind_ = rng0.choice(["add_table", "add_sheet"])
        for _ in range(rng0.randint(9, 12)):
            if kind_ == "add_table":
                g.emit({"op": "add_table", "d": 0, "s": 0, "rows": 1, "cols": 1, "hr": 0, "hc": 0})
            else:
                g.emit({"op": "add_sheet", "d": 0, "rows": 1, "cols": 1})
        g.emit({"op": "lookup", "d": 0, "s": 0})
        steps = min(steps, 6)
    weights = {"add_table": 10, "add_sheet": 6, "rename_table": 3, "rename_sheet": 2, "lookup": 8, "save": 3, "restart": 3, "write": 1}
    names, wts = list(weights), list(weights.values())

    def name():
        r = rng.random()
        if r < 0.45:
            return rng.choice(LOOKALIKE)
        if r < 0.6:
            # a case variant of an existing sibling name
            m = g.ms.docs[0].model
            pool = [s.name for s in m.sheets] + [t.name for s in m.sheets for t in s.tables]
            n = rng.choice(pool)
            return rng.choice([n, n.upper(), n.lower(), n.swapcase(), n.title()])
        return g.name()

    for _ in range(steps):
        kind = rng.choices(names, wts)[0]
        m = g.ms.docs[0].model
        s = rng.randrange(len(m.sheets))
        if kind == "add_table":
            o = {"op": "add_table", "d": 0, "s": s, "rows": rng.randint(1, 3), "cols": rng.randint(1, 3), "hr": 0, "hc": 0}
            if rng.random() < 0.6:
                o["name"] = name()
            if rng.random() < 0.3:
                o["defaults"] = True
            g.emit(o)
        elif kind == "add_sheet":
            o = {"op": "add_sheet", "d": 0, "rows": rng.randint(1, 3), "cols": rng.randint(1, 3), "tname": rng.choice(["Table 1", name()])}
            if rng.random() < 0.6:
                o["name"] = name()
            if rng.random() < 0.3:
                o["defaults"] = True
            g.emit(o)
        elif kind == "rename_table":
            tabs = m.sheets[s].tables
            t = rng.randrange(len(tabs))
            if len(tabs) >= 2 and rng.random() < 0.4:
                # name swap: the old name comes back on a sibling, then both are looked up
                old_name, t2 = tabs[t].name, (t + 1) % len(tabs)
                g.emit({"op": "lookup", "d": 0, "s": s})
                g.emit({"op": "rename_table", "d": 0, "s": s, "t": t, "name": "tmp " + str(rng.randrange(4))})
                g.emit({"op": "rename_table", "d": 0, "s": s, "t": t2, "name": old_name})
                g.emit({"op": "lookup", "d": 0, "s": s})
            else:
                g.emit({"op": "rename_table", "d": 0, "s": s, "t": t, "name": name()})
        elif kind == "rename_sheet":
            if len(m.sheets) >= 2 and rng.random() < 0.4:
                old_name, s2 = m.sheets[s].name, (s + 1) % len(m.sheets)
                g.emit({"op": "lookup", "d": 0, "s": s})
                g.emit({"op": "rename_sheet", "d": 0, "s": s, "name": "tmp " + str(rng.randrange(4))})
                g.emit({"op": "rename_sheet", "d": 0, "s": s2, "name": old_name})
                g.emit({"op": "lookup", "d": 0, "s": s})
            else:
                g.emit({"op": "rename_sheet", "d": 0, "s": s, "name": name()})
        elif kind == "lookup":
            g.emit({"op": "lookup", "d": 0, "s": s, "extra": rng.choice([1, 1, 3])})
        elif kind == "save":
            g.emit({"op": "save", "d": 0, "slot": rng.choice(ALL_SLOTS)})
        elif kind == "restart":
            slots = [n for n, sl in g.ms.slots.items() if sl.status == "good"]
            if slots:
                g.emit({"op": "restart", "d": 0, "slot": rng.choice(slots)})
                g.emit({"op": "lookup", "d": 0, "s": s})
        elif kind == "write":
            from dsim import values as V
            g.emit({"op": "write", "d": 0, "s": s, "t": rng.randrange(4), "r": rng.randrange(3), "c": rng.randrange(3), "v": V.enc(g.value())})
    g.emit({"op": "lookup", "d": 0, "s": 0, "extra": 2})
    slot = rng.choice(ALL_SLOTS)
    g.emit({"op": "save", "d": 0, "slot": slot})
    g.emit({"op": "restart", "d": 0, "slot": slot})
    g.emit({"op": "lookup", "d": 0, "s": rng.randrange(6), "extra": 2})
    return cfg, g.ops


def setup(sim: Sim) -> None:
    sim.extra_checks.append(check_unique_names)


def nontrivial(result: dict) -> bool:
    ops = result["stats"]["ops"]
    return ops.get("add_table", 0) + ops.get("add_sheet", 0) >= 2 and ops.get("lookup", 0) >= 1 and result["stats"]["restarts_ok"] >= 1
