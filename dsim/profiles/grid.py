"""C03 (and the shared skeleton for C01): edit histories against a plain grid."""

from __future__ import annotations

from dsim import values as V
from dsim.sim import ALL_SLOTS, FILE_SLOTS, OPS, PKG_SLOTS, Sim
from dsim.world import substream

PROPERTY = "C03"
RULE = (
    "one run = one seeded swarm configuration (docs, shapes, op weights, value mix, fault arm) and an op list of "
    "write/add/delete row+column/add_table/add_sheet/rename/save/restart(+fixture loads, +write faults) executed against the "
    "real library and a list-of-lists model in lock-step; every table of every open document is compared cell by cell "
    "(class, typed value, row/col) after EVERY op and again on the reopened file. Write faults are permanent (handle dead) or transient (handle stays usable); "
    "after a failed save the history often goes on as a caller would: a small edit, a save to the SAME target left as the failed attempt left it, a reopen. Every third run index is a bounded-exhaustive stratum: the "
    "j-th of all 6,174 op sequences of length 1..3 over an 18-op alphabet on a tiny table (4 shape variants), then save+restart; a thorough batch covers them all. "
    "distinct = distinct event-log digest; "
    "non-trivial = the run completed at least one save->restart whose reopened grid was compared and contained >=1 structural edit or out-of-bounds write"
)

# fixtures that hold only plain cells the grid model can carry (checked by the profile at load time too)
FIXTURES = [
    "test-1.numbers", "test-save-1.numbers", "issue-44.numbers", "test-empty-rows.numbers", "issue-51.numbers", "issue-10.numbers",
    "issue-3.numbers", "issue-4.numbers", "issue-56.numbers", "issue-60.numbers", "issue-80.numbers", "mapping.numbers", "matches.numbers",
    "test-5.numbers", "test-issue-75.numbers", "test-issue-76.numbers", "test-2.numbers", "test-package.numbers", "issue-9.numbers", "test-7.numbers",
    "issue-73.numbers", "test-format-save.numbers", "test-actions.numbers",
]

GEN_CELL_CAP = 3500

# includes pairs that differ only by Unicode normalisation form (different strings, hence different names),
# by trailing/inner white space, and by case
NAME_POOL = ["Data", "data", "Summary", "Σ", "Table 1", "Table 2", "table 3", "Sheet 2", "Ünïcode", "A", "", "x y", "tab\tname", "名前",
             "Caf\u00e9", "Cafe\u0301", "\u00c5", "\u212b", "A\u030a", "Data ", " Data", "x  y", "\u1e9e", "SS",
             # characters whose case-folded form differs from their lower-case form, or whose lower-case form is longer
             "Stra\u00dfe", "stra\u00dfe", "\ufb01n", "\u03c3\u03af\u03c3\u03c5\u03c6\u03bf\u03c2", "\u0130", "\u01f0",
             # equal when lower-cased although their lengths differ
             "\u0130stanbul", "i\u0307stanbul"]


def pick_shape(rng, cls=None):
    cls = cls or rng.choices(["tiny", "small", "default", "tile", "wide"], [3, 4, 2, 1, 0.6])[0]
    if cls == "tiny":
        return rng.randint(1, 3), rng.randint(1, 3)
    if cls == "small":
        return rng.randint(2, 9), rng.randint(2, 7)
    if cls == "default":
        return 12, 8
    if cls == "tile":
        return rng.choice([254, 255, 256, 257, 258, 511, 512, 513]), rng.randint(1, 3)
    return rng.randint(1, 3), rng.choice([254, 255, 256, 257, 258])


class Gen:
    """Generates an op list while tracking the state the ops will meet with a model-only Sim."""

    def __init__(self, seed: int, tier: str, cfg: dict) -> None:
        self.rng = substream(seed, "ops")
        self.tier = tier
        self.cfg = cfg
        self.ms = Sim(None, cfg)
        self.ops: list[dict] = []

    def emit(self, o: dict) -> str:
        o["id"] = len(self.ops)
        self.ops.append(o)
        return OPS[o["op"]](self.ms, o)

    # -- choosing targets ------------------------------------------------------------------------------
    def target(self):
        rng = self.rng
        ms = self.ms
        if not ms.docs:
            return None
        d = rng.randrange(len(ms.docs))
        m = ms.docs[d].model
        s = rng.randrange(len(m.sheets))
        t = rng.randrange(len(m.sheets[s].tables))
        return d, s, t, m.sheets[s].tables[t]

    def index(self, n: int) -> int:
        """An index in [0, n): first, last, tile boundaries and middle are all likely."""
        rng = self.rng
        cands = [0, n - 1, n // 2, rng.randrange(n)]
        for b in (255, 256, 257):
            if b < n:
                cands.append(b)
        return max(0, min(n - 1, rng.choice(cands)))

    def count(self, limit: int = 300) -> int:
        rng = self.rng
        return min(limit, rng.choices([1, 2, 3, rng.randint(4, 12), rng.choice([255, 256, 257])], [6, 3, 2, 1, 0.25])[0])

    def value(self):
        return V.gen_value(self.rng, self.cfg["_mix"], long_ok=self.cfg.get("_long", False))

    def name(self):
        rng = self.rng
        if rng.random() < 0.7:
            return rng.choice(NAME_POOL)
        return V.gen_text(rng, False)[:30]


ENUM_ALPHABET = [
    {"op": "write", "r": 0, "c": 0}, {"op": "write", "r": 1, "c": 1}, {"op": "write", "r": 2, "c": 2}, {"op": "write", "r": 0, "c": 3},
    {"op": "add_row", "n": 1}, {"op": "add_row", "n": 1, "at": 0}, {"op": "add_row", "n": 2, "at": 1, "dv": True},
    {"op": "add_col", "n": 1}, {"op": "add_col", "n": 1, "at": 0}, {"op": "add_col", "n": 2, "at": 1, "dv": True},
    {"op": "del_row", "n": 1}, {"op": "del_row", "n": 1, "at": 0}, {"op": "del_row", "n": 2, "at": 1},
    {"op": "del_col", "n": 1}, {"op": "del_col", "n": 1, "at": 0}, {"op": "del_col", "n": 2, "at": 1},
    {"op": "save", "slot": "f0"}, {"op": "add_table"},
]
ENUM_TOTAL = sum(len(ENUM_ALPHABET) ** k for k in (1, 2, 3))


def enum_history(j: int):
    """The j-th history in the enumeration of all op sequences of length 1..3 over ENUM_ALPHABET."""
    n = len(ENUM_ALPHABET)
    j %= ENUM_TOTAL
    for k in (1, 2, 3):
        if j < n**k:
            seq = []
            for _ in range(k):
                seq.append(ENUM_ALPHABET[j % n])
                j //= n
            return seq
        j -= n**k
    return []


def gen_enumerated(seed: int, tier: str, j: int):
    """Bounded-exhaustive stratum: every history of <= 3 ops on a tiny table (2x2 or 3x2, headers 0/1), then save+restart."""
    cfg = {"property": PROPERTY, "aspects": ["grid", "names"], "profile": "grid", "_mix": {"i": 1}, "_long": False, "fault_arm": False, "enumerated": j % ENUM_TOTAL}
    g = Gen(seed, tier, cfg)
    variant = (j // ENUM_TOTAL) % 4
    rows, cols, hr, hc = [(2, 2, 0, 0), (3, 2, 1, 1), (2, 3, 1, 0), (1, 1, 0, 0)][variant]
    g.emit({"op": "new_doc", "rows": rows, "cols": cols, "hr": hr, "hc": hc})
    k = 0
    for o in enum_history(j):
        o = dict(o)
        o.update({"d": 0, "s": 0, "t": 0})
        if o["op"] == "write":
            k += 1
            o["v"] = V.enc([k, f"v{k}", k + 0.5, True][k % 4])
        if o.get("dv") is True:
            o["dv"] = V.enc("d")
        if o["op"] == "add_table":
            o.update({"rows": 2, "cols": 2})
        g.emit(o)
    g.emit({"op": "save", "d": 0, "slot": "f1"})
    g.emit({"op": "restart", "d": 0, "slot": "f1"})
    return cfg, g.ops


def gen_bulky_same_size(seed: int, tier: str):
    """One Document object saved several times with edits in between that keep every size the same: a table whose
    text archive exceeds 64 KiB (one compression chunk) gets late cells replaced by other text of equal encoded length,
    numbers replaced by numbers, two texts swapped - anything that remembers 'unchanged' by size, by a prefix or by a
    count shows up in the second file."""
    rng = substream(seed, "bulky")
    cfg = {"property": PROPERTY, "aspects": ["grid", "names"], "profile": "grid", "_mix": {"s": 1}, "_long": False, "stratum": "bulky_same_size"}
    g = Gen(seed, tier, cfg)
    rows, cols = rng.randint(12, 30), rng.randint(2, 4)
    g.emit({"op": "new_doc", "rows": rows, "cols": cols, "hr": rng.choice([0, 1]), "hc": rng.choice([0, 1])})
    if rng.random() < 0.5:
        g.emit({"op": "add_table", "d": 0, "s": 0, "rows": rows, "cols": cols, "hr": 0, "hc": 0})
    t = len(g.ms.docs[0].model.sheets[0].tables) - 1
    width = rng.choice([1200, 4000, 6000])
    alphabet = "abcdefghijklmnopqrstuvwxyz0123456789"

    def text(tag):
        r2 = substream(seed, f"bulky-text-{tag}")
        return f"{tag:04d}-" + "".join(r2.choice(alphabet) for _ in range(width))

    for r in range(rows):
        g.emit({"op": "write", "d": 0, "s": 0, "t": t, "r": r, "c": 0, "v": V.enc(text(r))})
        g.emit({"op": "write", "d": 0, "s": 0, "t": t, "r": r, "c": 1, "v": V.enc(r * 1.5)})
    slots = list(ALL_SLOTS)
    rng.shuffle(slots)
    g.emit({"op": "save", "d": 0, "slot": slots[0]})
    tag = 5000
    for cycle in range(rng.randint(2, 4)):
        for _ in range(rng.randint(1, 3)):
            k = rng.random()
            r = rng.choice([rows - 1, rows - 2, rng.randrange(rows)])
            if k < 0.6:
                tag += 1
                g.emit({"op": "write", "d": 0, "s": 0, "t": t, "r": r, "c": 0, "v": V.enc(text(tag))})
            elif k < 0.8:
                g.emit({"op": "write", "d": 0, "s": 0, "t": t, "r": r, "c": 1, "v": V.enc(float(rng.randint(100, 999)))})
            else:
                r2 = rng.randrange(rows)
                g.emit({"op": "write", "d": 0, "s": 0, "t": t, "r": r, "c": 0, "v": V.enc(text(r2))})
                g.emit({"op": "write", "d": 0, "s": 0, "t": t, "r": r2, "c": 0, "v": V.enc(text(r))})
        slot = slots[(cycle + 1) % len(slots)] if rng.random() < 0.6 else slots[0]
        g.emit({"op": "save", "d": 0, "slot": slot})
        g.emit({"op": "restart", "d": 0, "slot": slot, "replace": False})
        g.emit({"op": "drop", "d": 1})
    return cfg, g.ops


def gen(seed: int, tier: str, idx=None):
    if tier == "thorough" and idx is not None and idx < ENUM_TOTAL:
        # thorough starts by executing EVERY history of the bounded space once (shape variant 0), then samples
        return gen_enumerated(seed, tier, idx)
    if idx is not None and idx % 3 == 0:
        return gen_enumerated(seed, tier, ENUM_TOTAL + idx // 3 if tier == "thorough" else idx // 3)
    if idx is not None and idx % 25 == 7:
        return gen_bulky_same_size(seed, tier)
    rng0 = substream(seed, "swarm")
    cfg = {"property": PROPERTY, "aspects": ["grid", "names"], "profile": "grid"}
    # every 2nd/3rd operation (or none) reaches its table through sheets[name].tables[name] instead of by index
    cfg["by_name_every"] = rng0.choice([0, 2, 3])
    kinds = ["s", "b", "i", "f", "dt", "td"]
    mix = {k: rng0.choice([0, 1, 2, 4]) for k in kinds}
    if not any(mix.values()):
        mix["i"] = 1
    cfg["_mix"] = mix
    cfg["_long"] = rng0.random() < 0.15
    fault_arm = rng0.random() < 0.35
    cfg["fault_arm"] = fault_arm
    max_steps = rng0.randint(6, 40 if tier == "thorough" else 28)
    weights = {
        "write": 30, "add_row": 8, "add_col": 8, "del_row": 6, "del_col": 6, "add_table": 3, "add_sheet": 2,
        "rename_table": 2, "rename_sheet": 1, "save": 9, "restart": 7, "new_doc": 1, "open_fixture": 1, "drop": 0.5,
    }
    for k in list(weights):
        if k not in ("write", "save", "restart") and rng0.random() < 0.25:
            weights[k] = 0
    g = Gen(seed, tier, cfg)
    rng = g.rng

    # initial documents
    ndocs = rng0.choices([1, 2, 3], [6, 3, 1])[0]
    for _ in range(ndocs):
        if rng0.random() < 0.12:
            g.emit({"op": "open_fixture", "name": rng0.choice(FIXTURES)})
        else:
            rows, cols = pick_shape(rng0)
            g.emit({"op": "new_doc", "rows": rows, "cols": cols, "hr": min(rng0.choice([0, 1, 1, 2]), rows), "hc": min(rng0.choice([0, 1, 1, 2]), cols)})

    names = list(weights)
    wts = [weights[n] for n in names]
    for _ in range(max_steps):
        kind = rng.choices(names, wts)[0]
        emit_one(g, kind, fault_arm)

    # bounded liveness / final durability: once faults stop, a fault-free save to a fresh slot and a
    # restart must succeed and equal the model, for every document still open
    free = [s for s in ALL_SLOTS]
    for d in range(len(g.ms.docs)):
        slot = free[(d + rng.randrange(len(free))) % len(free)]
        g.emit({"op": "save", "d": d, "slot": slot})
        g.emit({"op": "restart", "d": d, "slot": slot})
    return cfg, g.ops


def emit_one(g: Gen, kind: str, fault_arm: bool) -> None:
    rng = g.rng
    ms = g.ms
    if kind == "new_doc":
        rows, cols = pick_shape(rng)
        g.emit({"op": "new_doc", "d": rng.randrange(3), "rows": rows, "cols": cols, "hr": min(rng.choice([0, 1, 1, 2]), rows), "hc": min(rng.choice([0, 1, 1, 2]), cols)})
        return
    if kind == "open_fixture":
        g.emit({"op": "open_fixture", "d": rng.randrange(3), "name": rng.choice(FIXTURES)})
        return
    tgt = g.target()
    if tgt is None:
        rows, cols = pick_shape(rng)
        g.emit({"op": "new_doc", "rows": rows, "cols": cols})
        return
    d, s, t, tm = tgt
    if kind == "write":
        n = rng.choices([1, 2, 5, 12], [4, 3, 2, 1])[0]
        for _ in range(n):
            r = rng.random()
            if r < 0.72:
                row, col = g.index(tm.nrows), g.index(tm.ncols)
            elif r < 0.90:
                row = tm.nrows - 1 + rng.randint(0, 3)
                col = tm.ncols - 1 + rng.randint(0, 3)
            elif r < 0.96:
                row, col = rng.choice([254, 255, 256, 257, 511, 512]), rng.randrange(min(tm.ncols, 3))
            else:
                row, col = rng.randrange(min(tm.nrows, 3)), rng.choice([254, 255, 256, 257])
            col = min(col, 999)
            if max(row + 1, tm.nrows) * max(col + 1, tm.ncols) > GEN_CELL_CAP:
                row, col = g.index(tm.nrows), g.index(tm.ncols)
            g.emit({"op": "write", "d": d, "s": s, "t": t, "r": row, "c": col, "v": V.enc(g.value()), "nota": rng.choice(["rc", "rc", "a1", "abs"])})
            tm = ms.docs[d % len(ms.docs)].model.sheets[s].tables[t]
    elif kind in ("add_row", "add_col"):
        size = tm.nrows if kind == "add_row" else tm.ncols
        o = {"op": kind, "d": d, "s": s, "t": t, "n": g.count(300 if kind == "add_row" else 40)}
        other = tm.ncols if kind == "add_row" else tm.nrows
        if (size + o["n"]) * other > GEN_CELL_CAP:
            o["n"] = 1
        if rng.random() < 0.6:
            o["at"] = g.index(size)
        if rng.random() < 0.3:
            o["dv"] = V.enc(g.value())
        if rng.random() < 0.3:
            o["explicit"] = True
        g.emit(o)
    elif kind in ("del_row", "del_col"):
        size = tm.nrows if kind == "del_row" else tm.ncols
        o = {"op": kind, "d": d, "s": s, "t": t, "n": g.count(300)}
        if rng.random() < 0.6:
            o["at"] = g.index(size)
        shrink_tiles = kind == "del_row" and tm.nrows > 256 and rng.random() < 0.6
        if shrink_tiles:
            # several 256-row tiles shrink to fewer between two saves of the same Document
            g.emit({"op": "save", "d": d, "slot": rng.choice(ALL_SLOTS)})
            o["n"] = tm.nrows - rng.choice([256, 255, 200, 2])
            if "at" in o:
                o["at"] = rng.choice([0, 1, tm.nrows - o["n"]])
        g.emit(o)
        if shrink_tiles:
            g.emit({"op": "save", "d": d, "slot": rng.choice(ALL_SLOTS)})
            g.emit({"op": "restart", "d": d, "slot": g.ops[-1]["slot"], "replace": False})
    elif kind == "add_table":
        rows, cols = pick_shape(rng, rng.choice(["tiny", "small", "default"]))
        o = {"op": "add_table", "d": d, "s": s, "rows": rows, "cols": cols, "hr": min(rng.choice([0, 1, 1, 2]), rows), "hc": min(rng.choice([0, 1, 1]), cols)}
        r = rng.random()
        if r < 0.5:
            o["name"] = g.name()
        if rng.random() < 0.3:
            o["x"], o["y"] = float(rng.randint(0, 800)), float(rng.randint(0, 800))
        if rng.random() < 0.2:
            o["defaults"] = True
        g.emit(o)
    elif kind == "add_sheet":
        rows, cols = pick_shape(rng, rng.choice(["tiny", "small", "default"]))
        o = {"op": "add_sheet", "d": d, "rows": rows, "cols": cols, "tname": rng.choice(["Table 1", "T", g.name()])}
        if rng.random() < 0.5:
            o["name"] = g.name()
        if rng.random() < 0.2:
            o["defaults"] = True
        g.emit(o)
    elif kind == "rename_table":
        # often a name swap: A -> tmp, B -> A (the old name comes back on another item)
        sm = ms.docs[d % len(ms.docs)].model.sheets[s]
        if len(sm.tables) >= 2 and rng.random() < 0.5:
            t2 = (t + 1) % len(sm.tables)
            old_name = sm.tables[t].name
            g.emit({"op": "rename_table", "d": d, "s": s, "t": t, "name": "tmp " + str(rng.randrange(5))})
            g.emit({"op": "rename_table", "d": d, "s": s, "t": t2, "name": old_name})
            g.emit({"op": "write", "d": d, "s": s, "t": t2, "r": 0, "c": 0, "v": V.enc(g.value())})
        else:
            g.emit({"op": "rename_table", "d": d, "s": s, "t": t, "name": g.name()})
    elif kind == "rename_sheet":
        m = ms.docs[d % len(ms.docs)].model
        if len(m.sheets) >= 2 and rng.random() < 0.5:
            s2 = (s + 1) % len(m.sheets)
            old_name = m.sheets[s].name
            g.emit({"op": "rename_sheet", "d": d, "s": s, "name": "tmp " + str(rng.randrange(5))})
            g.emit({"op": "rename_sheet", "d": d, "s": s2, "name": old_name})
            g.emit({"op": "write", "d": d, "s": s2, "t": 0, "r": 0, "c": 0, "v": V.enc(g.value())})
        else:
            g.emit({"op": "rename_sheet", "d": d, "s": s, "name": g.name()})
    elif kind == "save":
        o = {"op": "save", "d": d, "slot": rng.choice(FILE_SLOTS + FILE_SLOTS + PKG_SLOTS)}
        if fault_arm and rng.random() < 0.45:
            o["fault"] = gen_fault(rng)
        if rng.random() < 0.5:
            o["wipe"] = False  # save over whatever a failed attempt left at the target instead of clearing it first
        g.emit(o)
        if o.get("fault") and o["fault"]["kind"] == "write_error" and rng.random() < 0.6:
            # the caller's natural reaction to a failed save: (edit a little,) save again to the same place, later reopen it
            if rng.random() < 0.7:
                tm2 = ms.docs[d % len(ms.docs)].model.sheets[s].tables[t]
                if rng.random() < 0.5:
                    g.emit({"op": "write", "d": d, "s": s, "t": t, "r": g.index(tm2.nrows), "c": g.index(tm2.ncols), "v": V.enc(rng.choice(["", "s", g.value()]))})
                else:
                    g.emit({"op": rng.choice(["add_row", "del_row", "add_col"]), "d": d, "s": s, "t": t, "n": 1})
            g.emit({"op": "save", "d": d, "slot": o["slot"], "wipe": False})
            g.emit({"op": "restart", "d": d, "slot": o["slot"], "replace": rng.random() < 0.5})
        if rng.random() < 0.35:
            # repeated save, same or other slot
            g.emit({"op": "save", "d": d, "slot": rng.choice(ALL_SLOTS)})
    elif kind == "restart":
        slots = [n for n, sl in ms.slots.items() if sl.status != "absent"]
        if not slots:
            slot = rng.choice(ALL_SLOTS)
            g.emit({"op": "save", "d": d, "slot": slot})
            slots = [slot]
        g.emit({"op": "restart", "d": d, "slot": rng.choice(slots), "replace": rng.random() < 0.7})
    elif kind == "drop":
        g.emit({"op": "drop", "d": d})


def gen_fault(rng) -> dict:
    f = {"kind": rng.choice(["write_error", "write_error", "crash"]), "err": rng.choice(["ENOSPC", "EIO"])}
    f["cls"] = rng.choices(["zero", "head", "tail", "frac"], [1, 2, 2, 6])[0]
    f["frac"] = rng.random()
    if f["kind"] == "crash":
        f["lost"] = rng.choice([0, 0, rng.randint(1, 8192)])
    elif rng.random() < 0.5:
        f["transient"] = True
    return f


def setup(sim: Sim) -> None:
    if sim.real and "enumerated" in sim.cfg:
        sim.probe("enumerated_short_history_runs")


def evidence_extra(agg) -> dict:
    n = agg["stats"].get("probes", {}).get("enumerated_short_history_runs", 0)
    return {"bounded_exhaustive_stratum": {"histories_executed": n, "histories_in_space": ENUM_TOTAL, "shape_variants": 4,
                                           "note": "quick: run index 3j executes history j mod %d on shape variant (j div %d) mod 4; thorough: run indices 0..%d execute every history once on shape variant 0, later indices continue with the other variants" % (ENUM_TOTAL, ENUM_TOTAL, ENUM_TOTAL - 1)}}


def nontrivial(result: dict) -> bool:
    st = result["stats"]
    ops = st["ops"]
    structural = sum(ops.get(k, 0) for k in ("add_row", "add_col", "del_row", "del_col", "add_table", "add_sheet"))
    return st["restarts_ok"] >= 1 and (structural >= 1 or st["outcomes"].get("ok_grew", 0) >= 1)
