"""C15: styles and borders applied through the API read back equal, now and after reload."""

from __future__ import annotations

import json
import os
import warnings

from dsim import allops  # noqa: F401
from dsim import ops_look
from dsim import values as V
from dsim.profiles.grid import Gen
from dsim.sim import ALL_SLOTS, Sim
from dsim.world import substream

PROPERTY = "C15"
DECOY = 0.25  # share of runs that edit a second document first and keep it open (runner.with_decoy)
RULE = (
    "one run = a seeded history of add_style (all 15 attributes over their domains: 188 font families, dyadic sizes/indents/insets, RGB "
    "colours, 5x3 alignments, wrap, background colour or image), set_cell_style by object / by name / write(style=), border strokes (4 sides, "
    "start, length, width with <= 2 decimals, colour, 4 patterns; overlapping, abutting, superseding, partially covering), plain writes, "
    "scheduled observers (style / border of a cell, a row or the whole table), saves and restarts. Oracles: at every observer the observed cells "
    "equal the given style attributes and the last-writer-wins edge model (a cell's side and its neighbour's opposite side are one edge); on "
    "every reopened file ALL cells are compared (styled: every attribute; unstyled: equal to a pristine document's default for its position "
    "class; every edge). 25% of runs are observer-twin runs on shipped documents: two instances of one fixture, one read, both saved and "
    "reopened 1-3 times, must reload identically and the read twin's save must not raise. distinct = event-log digest; non-trivial = "
    "(>= 1 style applied or >= 2 strokes) and a completed save->restart, or a completed twin run"
)
ASSUMPTIONS = [
    "bound: numeric style attributes are dyadic (multiples of 0.25/0.5) so 32-bit storage is exact; border widths have <= 2 decimals as documented",
    "bound: strokes are drawn inside the table; on tables with merged ranges (a third of the runs) a visible-side model applies: a side is visible unless its edge lies strictly inside the cell's merged range, calls addressing a hidden side are ignored as documented; ranges are merged before and after strokes are drawn and styles applied; structural edits are not mixed with strokes (unspecified)",
    "mirrored, not judged: a plain write() to a styled cell replaces the cell object and its style with it",
    "style objects applied after a restart are ones created after that restart (what a reloaded custom style carries is not specified)",
]

with open(os.path.join(os.path.dirname(os.path.dirname(__file__)), "fixtures.json")) as _fh:
    _SURVEY = json.load(_fh)
TWIN_FIX = sorted(k for k, v in _SURVEY.items() if v.get("opens") and (v.get("cells") or 0) <= 1300 and not v.get("warnings"))
_FONTS = None


def fonts():
    global _FONTS
    if _FONTS is None:
        from numbers_parser.generated.fontmap import FONT_NAME_TO_FAMILY

        _FONTS = sorted(set(FONT_NAME_TO_FAMILY.values()))
    return _FONTS


# different names that a lossy key (case-folded, blanks to hyphens, trimmed) would identify
NEAR_NAMES = ["Total Row", "total-row", "Total-Row", "total row", "TOTAL ROW", "Total Row "]


def gen_attrs(rng) -> dict:
    a = {}
    def maybe(p=0.5):
        return rng.random() < p
    if maybe():
        a["alignment"] = (rng.choice(["left", "right", "center", "justified", "auto"]), rng.choice(["top", "middle", "bottom"]))
    if maybe(0.4):
        a["bg_color"] = (rng.randrange(256), rng.randrange(256), rng.randrange(256))
    elif maybe(0.15):
        # file names that end alike (a lookup by suffix or prefix would confuse them), each with its own bytes
        a["bg_image"] = rng.choice(["cat.jpg", "tomcat.jpg", "cat.jpg", "xcat.jpg", "at.jpg", "cat.jpg.jpg"])
    if maybe():
        a["font_color"] = rng.choice([(0, 0, 0), (255, 255, 255), (rng.randrange(256), rng.randrange(256), rng.randrange(256))])
    if maybe():
        a["font_size"] = rng.choice([8.0, 9.0, 10.0, 11.0, 12.0, 14.0, 18.0, 24.0, 36.0, 72.0, rng.randrange(16, 200) / 2])
    if maybe():
        a["font_name"] = rng.choice(fonts())
    for k in ("bold", "italic", "strikethrough", "underline"):
        if maybe(0.35):
            a[k] = rng.random() < 0.7
    for k in ("first_indent", "left_indent", "right_indent"):
        if maybe(0.25):
            a[k] = rng.randrange(0, 80) / 2
    if maybe(0.3):
        a["text_inset"] = rng.randrange(0, 40) / 2
    if maybe(0.3):
        a["text_wrap"] = rng.random() < 0.5
    return a


def gen_variant(rng, base: dict) -> dict:
    """A style equal to ``base`` except for exactly one attribute: two styles that differ in one attribute only
    are what exposes an attribute missing from (or conflated in) the saved-style fingerprint."""
    a = dict(base)
    k = rng.choice(["bg_color", "bg_color", "alignment", "text_wrap", "text_inset", "first_indent", "left_indent", "right_indent",
                    "bold", "italic", "underline", "strikethrough", "font_color", "font_size", "font_name"])
    if k == "bg_color":
        cur = a.get("bg_color")
        opts = [None, (0, 0, 0), (255, 255, 255), (1, 0, 0), (0, 0, 1)]
        a.pop("bg_image", None)
        new = rng.choice([o for o in opts if o != (tuple(cur) if cur else None)])
        if new is None:
            a.pop("bg_color", None)
        else:
            a["bg_color"] = new
    elif k == "alignment":
        h, v = a.get("alignment", ("auto", "top"))
        if rng.random() < 0.5:
            v = rng.choice([x for x in ["top", "middle", "bottom"] if x != v])
        else:
            h = rng.choice([x for x in ["left", "right", "center", "justified", "auto"] if x != h])
        a["alignment"] = (h, v)
    elif k == "text_wrap":
        a["text_wrap"] = not a.get("text_wrap", True)
    elif k in ("text_inset", "first_indent", "left_indent", "right_indent"):
        cur = a.get(k, 4.0 if k == "text_inset" else 0.0)
        a[k] = rng.choice([x for x in [0.0, 0.5, 1.0, 4.0, 4.5, 10.0] if x != cur])
    elif k in ("bold", "italic", "underline", "strikethrough"):
        a[k] = not a.get(k, False)
    elif k == "font_color":
        cur = tuple(a.get("font_color", (0, 0, 0)))
        a["font_color"] = rng.choice([x for x in [(0, 0, 0), (255, 255, 255), (0, 0, 1), (254, 255, 255)] if x != cur])
    elif k == "font_size":
        cur = a.get("font_size", 11.0)
        a["font_size"] = rng.choice([x for x in [10.0, 11.0, 11.5, 12.0] if x != cur])
    else:
        cur = a.get("font_name", "Helvetica Neue")
        a["font_name"] = rng.choice([x for x in fonts() if x != cur])
    return a


def gen_border(g, rng, tm, d=0, s=0, t=0) -> dict:
    side = rng.choice(["top", "right", "bottom", "left"])
    o = {"op": "border", "d": d, "s": s, "t": t, "side": side, "r": g.index(tm.nrows), "c": g.index(tm.ncols),
         "width": rng.choice([0.25, 0.35, 0.5, 1.0, 2.0, 3.0, 4.0, 6.0, 8.0, rng.randrange(1, 1000) / 100]),
         "color": [rng.randrange(256), rng.randrange(256), rng.randrange(256)] if rng.random() < 0.6 else rng.choice([[0, 0, 0], [255, 0, 0], [29, 177, 0]]),
         "style": rng.choices(["solid", "dashes", "dots", "none"], [5, 2, 2, 1])[0], "nota": rng.choice(["rc", "a1"])}
    if rng.random() < 0.7:
        o["len"] = rng.choices([1, 2, 3, rng.randint(1, 8)], [3, 3, 2, 2])[0]
    return o


def stroke_pattern(g, rng, tm, t) -> None:
    """Two or three strokes along ONE line in the arrangements that stress the bookkeeping of stroke runs: a later stroke
    that begins before an existing run and ends inside it; a run overridden in part (in its own layer or from the
    neighbouring cells' opposite side) and then continued, exactly where it ends, by a stroke of identical appearance."""
    horizontal = tm.ncols >= 5 and (tm.nrows < 5 or rng.random() < 0.5)
    n_along, n_across = (tm.ncols, tm.nrows) if horizontal else (tm.nrows, tm.ncols)
    line = rng.randrange(n_across)
    side = rng.choice(["top", "bottom"]) if horizontal else rng.choice(["left", "right"])
    a0 = rng.randint(1, n_along - 4)

    def stroke(start, length, look, side_=None, line_=None):
        o = gen_border(g, rng, tm, t=t)
        o["side"] = side_ or side
        ln = line if line_ is None else line_
        o["r"], o["c"] = (ln, start) if horizontal else (start, ln)
        o["len"] = length
        o["width"], o["color"], o["style"] = look
        o["nota"] = "rc"
        return o

    look_a = (rng.choice([1.0, 2.0, 3.0]), [255, 0, 0], "solid")
    look_b = (rng.choice([0.5, 4.0]), [0, 0, 255], rng.choice(["dashes", "dots"]))
    kind = rng.choice(["before_into", "override_then_extend", "override_opposite_then_extend"])
    la = rng.randint(2, 3)
    g.emit(stroke(a0, la, look_a))
    if kind == "before_into":
        g.emit(stroke(a0 - 1, rng.randint(2, la), look_b))
        return
    if kind == "override_then_extend":
        g.emit(stroke(a0 - 1, 2, look_b))
    else:
        opp = {"top": ("bottom", -1), "bottom": ("top", 1), "left": ("right", -1), "right": ("left", 1)}[side]
        nl = line + opp[1]
        if 0 <= nl < n_across:
            g.emit(stroke(a0, 1, look_b, side_=opp[0], line_=nl))
        else:
            g.emit(stroke(a0 - 1, 2, look_b))
    if a0 + la < n_along:
        if rng.random() < 0.3:
            g.emit({"op": "save", "d": 0, "slot": rng.choice(ALL_SLOTS)})
        g.emit(stroke(a0 + la, min(rng.randint(1, 2), n_along - (a0 + la)), look_a))


def gen(seed: int, tier: str, idx=None):
    rng0 = substream(seed, "swarm")
    cfg = {"property": PROPERTY, "aspects": ["grid", "names", "look"], "profile": "look", "_mix": {"s": 3, "i": 2, "f": 1, "b": 1}, "_long": False, "writes_in_bounds": True}
    g = Gen(seed, tier, cfg)
    rng = g.rng
    if rng0.random() < 0.25:
        kinds = ["style", "border", "style", "border", "formula", "formatted_value", "row_height", "size"]
        for _ in range(rng0.choice([1, 1, 2])):
            n = rng.randint(1, 3)
            obs = [{"kind": rng.choice(kinds), "scope": rng.choice(["cell", "table", "table"]), "s": rng.randrange(4), "t": rng.randrange(4),
                    "r": rng.randrange(40), "c": rng.randrange(12)} for _ in range(n)]
            g.emit({"op": "twin_resave", "name": rng.choice(TWIN_FIX), "observers": obs, "cycles": rng.choice([1, 1, 2, 3]), "snap": "look",
                    "package": rng.random() < 0.25, "observe_each_cycle": rng.random() < 0.5})
        cfg["twin_run"] = True
        return cfg, g.ops
    rows, cols = rng0.randint(1, 8), rng0.randint(1, 7)
    g.emit({"op": "new_doc", "rows": rows, "cols": cols, "hr": min(rng0.choice([0, 1, 1]), rows), "hc": min(rng0.choice([0, 1, 1]), cols)})
    if rng0.random() < 0.3:
        g.emit({"op": "add_table", "d": 0, "s": 0, "rows": rng0.randint(1, 6), "cols": rng0.randint(1, 6), "hr": 1, "hc": 0})
    if rng0.random() < 0.35:
        # strokes on and around merged ranges: a third of the runs merge 1-3 ranges before anything is drawn
        from dsim.profiles.merge import gen_rect

        cfg["strokes_on_merged"] = True
        cfg["aspects"] = ["grid", "names", "look", "merges"]
        g.ms.aspects = set(cfg["aspects"])
        g.ms.cfg["strokes_on_merged"] = True
        tm0 = g.ms.docs[0].model.sheets[0].tables[0]
        g.emit({"op": "merge", "d": 0, "s": 0, "t": 0, "rects": [gen_rect(g, tm0, rng) for _ in range(rng0.randint(1, 3))], "as_list": True})
    steps = rng0.randint(5, 30 if tier == "thorough" else 20)
    weights = {"add_style": 4, "set_style": 8, "mutate_style": 2.5, "border": 12, "write": 4, "observe": 5, "save": 3, "restart": 3}
    arm = rng0.choice(["both", "both", "styles", "borders"])
    if arm == "styles":
        weights["border"] = 0
    if arm == "borders":
        weights["add_style"] = weights["set_style"] = weights["mutate_style"] = 0
    if cfg.get("strokes_on_merged"):
        weights["merge"] = 2.5  # further ranges merged AFTER strokes were drawn and styles applied
    names, wts = list(weights), list(weights.values())
    if arm != "borders":
        g.emit({"op": "add_style", "d": 0, "attrs": gen_attrs(rng), "name": rng.choice([None, "Red Text", "S1"])})
    if arm != "borders" and rng0.random() < 0.2:
        # two styles whose NAMES nearly coincide (case, blank versus hyphen) and whose attributes differ, both in use
        n1, n2 = rng.sample(NEAR_NAMES, 2)
        tm0 = g.ms.docs[0].model.sheets[0].tables[0]
        for k, nm in enumerate((n1, n2)):
            g.emit({"op": "add_style", "d": 0, "attrs": gen_attrs(rng), "name": nm})
            names_now = list(g.ms.docs[0].model.styles)
            if nm in names_now:
                g.emit({"op": "set_style", "d": 0, "s": 0, "t": 0, "r": k % tm0.nrows, "c": g.index(tm0.ncols), "style": names_now.index(nm), "via": "set"})
            if k == 0 and rng.random() < 0.4:
                slot = rng.choice(ALL_SLOTS)
                g.emit({"op": "save", "d": 0, "slot": slot})
                if rng.random() < 0.5:
                    g.emit({"op": "restart", "d": 0, "slot": slot})
    if arm != "borders" and rng0.random() < 0.15:
        # two background images whose file names end alike, both in use, in either order of creation
        pair = rng.sample(["cat.jpg", "tomcat.jpg", "xcat.jpg", "at.jpg", "cat.jpg.jpg"], 2)
        tm0 = g.ms.docs[0].model.sheets[0].tables[0]
        for k, img in enumerate(pair):
            at = gen_attrs(rng)
            at.pop("bg_color", None)
            at["bg_image"] = img
            g.emit({"op": "add_style", "d": 0, "attrs": at, "name": None})
            names_now = list(g.ms.docs[0].model.styles)
            g.emit({"op": "set_style", "d": 0, "s": 0, "t": 0, "r": (k + 1) % tm0.nrows, "c": g.index(tm0.ncols), "style": len(names_now) - 1, "via": "set"})
    for _ in range(steps):
        kind = rng.choices(names, wts)[0]
        m = g.ms.docs[0].model
        t = rng.randrange(len(m.sheets[0].tables))
        tm = m.sheets[0].tables[t]
        if kind == "add_style":
            prev = list(m.styles.values())
            if prev and rng.random() < 0.5:
                # a near-duplicate of an existing style, applied right next to a cell that carries the original
                base_name = rng.choice(list(m.styles))
                g.emit({"op": "add_style", "d": 0, "attrs": gen_variant(rng, m.styles[base_name]), "name": None})
                r0, c0 = g.index(tm.nrows), g.index(tm.ncols)
                names_now = list(g.ms.docs[0].model.styles)
                g.emit({"op": "set_style", "d": 0, "s": 0, "t": t, "r": r0, "c": c0, "style": names_now.index(base_name), "via": "set"})
                g.emit({"op": "set_style", "d": 0, "s": 0, "t": t, "r": (r0 + 1) % tm.nrows, "c": c0, "style": len(names_now) - 1, "via": "set"})
                if tm.ncols > 1:
                    g.emit({"op": "set_style", "d": 0, "s": 0, "t": t, "r": r0, "c": (c0 + 1) % tm.ncols, "style": len(names_now) - 1, "via": "set"})
            else:
                g.emit({"op": "add_style", "d": 0, "attrs": gen_attrs(rng), "name": rng.choice([None, None, "Bold " + str(rng.randrange(4)), "Ünï " + str(rng.randrange(3)), rng.choice(NEAR_NAMES)])})
        elif kind == "merge":
            from dsim.profiles.merge import gen_rect

            g.emit({"op": "merge", "d": 0, "s": 0, "t": t, "rects": [gen_rect(g, tm, rng)], "as_list": rng.random() < 0.3})
        elif kind == "mutate_style":
            if m.styles:
                var = gen_variant(rng, {})
                k = next(iter(var)) if var else "bold"
                val = var.get(k, True)
                g.emit({"op": "mutate_style", "d": 0, "style": rng.randrange(12), "attr": k, "value": list(val) if isinstance(val, tuple) else val})
                if rng.random() < 0.5:
                    g.emit({"op": "save", "d": 0, "slot": rng.choice(ALL_SLOTS)})
        elif kind == "set_style":
            o = {"op": "set_style", "d": 0, "s": 0, "t": t, "r": g.index(tm.nrows), "c": g.index(tm.ncols), "style": rng.randrange(12),
                 "via": rng.choice(["set", "set", "name", "write"]), "nota": rng.choice(["rc", "a1"])}
            if o["via"] == "write":
                o["v"] = V.enc(g.value())
            g.emit(o)
        elif kind == "border" and rng.random() < 0.2 and max(tm.nrows, tm.ncols) >= 5 and not tm.merges:
            stroke_pattern(g, rng, tm, t)
        elif kind == "border":
            g.emit(gen_border(g, rng, tm, t=t))
            if rng.random() < 0.4:
                # a second stroke aimed at the same line: superseding / partially covering / abutting
                prev = g.ops[-1]
                o = gen_border(g, rng, tm, t=t)
                o["side"] = prev["side"]
                o["r"], o["c"] = prev["r"], prev["c"]
                if rng.random() < 0.6:
                    if prev["side"] in ("top", "bottom"):
                        o["c"] = max(0, prev["c"] + rng.randint(-2, 2))
                    else:
                        o["r"] = max(0, prev["r"] + rng.randint(-2, 2))
                elif rng.random() < 0.5:
                    # the same edge reached from the neighbouring cell's opposite side
                    opp = {"top": ("bottom", -1, 0), "bottom": ("top", 1, 0), "left": ("right", 0, -1), "right": ("left", 0, 1)}[prev["side"]]
                    nr_, nc_ = prev["r"] + opp[1], prev["c"] + opp[2]
                    if 0 <= nr_ < tm.nrows and 0 <= nc_ < tm.ncols:
                        o["side"], o["r"], o["c"] = opp[0], nr_, nc_
                g.emit(o)
        elif kind == "write" and tm.merges and rng.random() < 0.5:
            # a value written into the top-left cell of a merged range that already carries strokes on its outer edges
            m0 = rng.choice(tm.merges)
            if rng.random() < 0.6:
                g.emit(gen_border(g, rng, tm, t=t) | {"r": m0[0], "c": m0[1], "side": rng.choice(["top", "left"]), "len": 1})
            g.emit({"op": "write", "d": 0, "s": 0, "t": t, "r": m0[0], "c": m0[1], "v": V.enc(g.value())})
            g.emit({"op": "observe", "d": 0, "s": 0, "t": t, "kind": "border", "scope": "table", "r": 0, "c": 0})
        elif kind == "write":
            g.emit({"op": "write", "d": 0, "s": 0, "t": t, "r": g.index(tm.nrows), "c": g.index(tm.ncols), "v": V.enc(g.value())})
        elif kind == "observe":
            g.emit({"op": "observe", "d": 0, "s": 0, "t": t, "kind": rng.choice(["style", "border", "both"]), "scope": rng.choice(["cell", "row", "table"]),
                    "r": rng.randrange(20), "c": rng.randrange(20)})
        elif kind == "save":
            g.emit({"op": "save", "d": 0, "slot": rng.choice(ALL_SLOTS)})
        elif kind == "restart":
            slots = [n for n, sl in g.ms.slots.items() if sl.status == "good"]
            if slots:
                g.emit({"op": "restart", "d": 0, "slot": rng.choice(slots)})
    if rng.random() < 0.5:
        g.emit({"op": "observe", "d": 0, "s": 0, "t": 0, "kind": "both", "scope": "table"})
    slot = rng.choice(ALL_SLOTS)
    g.emit({"op": "save", "d": 0, "slot": slot})
    g.emit({"op": "restart", "d": 0, "slot": slot})
    return cfg, g.ops


def setup(sim: Sim) -> None:
    sim.cfg.setdefault("_reopen_checks", []).append(ops_look.reopen_check)
    if sim.real and not sim.cfg.get("twin_run"):
        # position-class defaults learnt from a pristine document that is never touched again
        from numbers_parser import Document

        with warnings.catch_warnings():
            warnings.simplefilter("ignore")
            p = Document(num_rows=3, num_cols=3, num_header_rows=1, num_header_cols=1)
            t = p.sheets[0].tables[0]
            sim.pristine_style_defaults = {
                "header_row": ops_look.style_snapshot(t.cell(0, 1).style),
                "header_col": ops_look.style_snapshot(t.cell(1, 0).style),
                "body": ops_look.style_snapshot(t.cell(1, 1).style),
            }


def nontrivial(result: dict) -> bool:
    st = result["stats"]
    ops = st["ops"]
    if ops.get("twin_resave", 0) and st["outcomes"].get("ok", 0):
        return True
    return (ops.get("set_style", 0) >= 1 or ops.get("border", 0) >= 2) and st["restarts_ok"] >= 1
