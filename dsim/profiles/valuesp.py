"""C01: values written to cells are read back exactly after save and reopen."""

from __future__ import annotations

from dsim import allops  # noqa: F401
from dsim import values as V
from dsim.profiles.grid import Gen, pick_shape
from dsim.sim import ALL_SLOTS, Sim
from dsim.world import substream

PROPERTY = "C01"
DECOY = 0.25  # share of runs that edit a second document first and keep it open (runner.with_decoy)
RULE = (
    "one run = a new document of a seeded shape (incl. tables straddling 256-row tiles and 256 columns), 40-400 seeded values "
    "(text incl. empty/multi-line/astral/100k chars, both bools, ints |n|<1e15, floats of <=15 significant digits in 1e-290..1e290 and 0.0, "
    "naive datetimes, timedeltas) written inside and OUTSIDE the current bounds in row/column, A1 and $A$1 notation, overwrites, then save "
    "(file or package slot, fresh or overwritten) and restart; oracle on the reopened file: cell class and exact typed equality for every cell. "
    "Run index mod 4 selects a value stratum: 0 = consecutive integers block, 1 = consecutive 2-decimal prices block, 2/3 = random mix. "
    "The persistence boundary, growth history and tile layout are the simulated dimensions; the value generator is what discriminates the number codec. "
    "distinct = event-log digest; non-trivial = >= 20 values compared after a completed save->restart"
)
ASSUMPTIONS = [
    "bound: cell positions up to row 2000 / column 999 in quick (a write at row 999999 allocates 1e6 cell objects, ~3 GB); thorough adds one deep write per 64 runs at rows 65536..70000 and, once per batch (run index 7), writes at row 999999 and column 999 - the documented limits themselves - plus the first position beyond each",
]


def gen_max_position(seed: int):
    """The documented limits themselves: a write at row 999 999 of a one-column table and at column 999 of a one-row
    table (10^6 cell objects, ~3 GB, ~3 min: once per thorough batch), and the first position beyond each limit."""
    cfg = {"property": PROPERTY, "aspects": ["grid", "names"], "profile": "values", "grid_prefix": "C01", "_mix": {"f": 1}, "_long": False,
           "stratum": "max_position", "wall_cap": 1500}
    g = Gen(seed, "thorough", cfg)
    g.emit({"op": "new_doc", "rows": 1, "cols": 1, "hr": 0, "hc": 0})
    g.emit({"op": "write", "d": 0, "s": 0, "t": 0, "r": 0, "c": 999, "v": V.enc("last column"), "nota": "a1"})
    g.emit({"op": "bad_pos", "d": 0, "s": 0, "t": 0, "method": "write", "r": {"rel": "in", "k": 0}, "c": {"rel": "max", "k": 0}, "nota": "rc"})
    g.emit({"op": "save", "d": 0, "slot": "f0"})
    g.emit({"op": "restart", "d": 0, "slot": "f0"})
    g.emit({"op": "new_doc", "d": 0, "rows": 1, "cols": 1, "hr": 0, "hc": 0})
    g.emit({"op": "drop", "d": 0})
    g.emit({"op": "write", "d": 0, "s": 0, "t": 0, "r": 999_999, "c": 0, "v": V.enc(12.5), "nota": "a1"})
    g.emit({"op": "bad_pos", "d": 0, "s": 0, "t": 0, "method": "write", "r": {"rel": "max", "k": 0}, "c": {"rel": "in", "k": 0}, "nota": "rc"})
    g.emit({"op": "save", "d": 0, "slot": "f1"})
    g.emit({"op": "restart", "d": 0, "slot": "f1"})
    return cfg, g.ops


def gen(seed: int, tier: str, idx=None):
    if tier == "thorough" and idx == 7:
        return gen_max_position(seed)
    rng0 = substream(seed, "swarm")
    stratum = (idx or 0) % 4 if idx is not None else rng0.randrange(4)
    block = (idx or 0) // 4
    cfg = {"property": PROPERTY, "aspects": ["grid", "names"], "profile": "values", "grid_prefix": "C01",
           "_mix": {"s": 3, "b": 1, "i": 3, "f": 4, "dt": 2, "td": 2}, "_long": rng0.random() < 0.2, "stratum": stratum}
    g = Gen(seed, tier, cfg)
    rng = g.rng
    cls = rng0.choices(["tiny", "small", "default", "tile", "wide"], [1, 3, 2, 2, 1])[0]
    rows, cols = pick_shape(rng0, cls)
    g.emit({"op": "new_doc", "rows": rows, "cols": cols, "hr": min(rng0.choice([0, 1, 1, 2]), rows), "hc": min(rng0.choice([0, 1, 1]), cols)})
    # a third of the runs spread the values over several tables (added tables and sheets get their own lookup lists)
    ntab = 1
    if rng0.random() < 0.33:
        for _ in range(rng0.randint(1, 3)):
            if rng0.random() < 0.7:
                g.emit({"op": "add_table", "d": 0, "s": 0, "rows": rng0.randint(1, 6), "cols": rng0.randint(1, 4)})
            else:
                g.emit({"op": "add_sheet", "d": 0, "rows": rng0.randint(1, 6), "cols": rng0.randint(1, 4)})
            ntab += 1
    cycles = rng0.choice([1, 1, 2, 3])
    nvals = rng0.randint(40, 400 if tier == "thorough" else 220)
    ncols_use = max(1, min(cols, 6))
    seq = 0
    for cyc in range(cycles):
        for k in range(nvals // cycles):
            if stratum == 0:
                v = (block * 100 + seq) % 10_001 * rng.choice([1, 1, -1])
            elif stratum == 1:
                cents = (block * 250 + seq) % 100_000
                v = V.float_from_digits(rng.choice([1, 1, -1]), cents, -2)
            else:
                v = g.value()
            seq += 1
            tabs = list(g.ms.docs[0].model.tables())
            si_, ti_, tm = tabs[rng.randrange(len(tabs))] if (ntab > 1 and rng.random() < 0.6) else tabs[0]
            r = rng.random()
            if r < 0.6:
                row, col = (seq // ncols_use) % max(tm.nrows, 1), seq % ncols_use
            elif r < 0.8:
                row, col = g.index(tm.nrows), g.index(tm.ncols)
            elif r < 0.95:
                row, col = tm.nrows - 1 + rng.randint(0, 2), min(999, tm.ncols - 1 + rng.randint(0, 1))
            else:
                row = rng.choice([254, 255, 256, 257, 511, 512, 513, 767, 768]) if tm.ncols <= 8 else g.index(tm.nrows)
                col = rng.randrange(min(tm.ncols, 4))
            if max(row + 1, tm.nrows) * max(col + 1, tm.ncols) > 6000:
                row, col = g.index(tm.nrows), g.index(tm.ncols)
            g.emit({"op": "write", "d": 0, "s": si_, "t": ti_, "r": row, "c": col, "v": V.enc(v), "nota": rng.choice(["rc", "rc", "a1", "abs"])})
        if tier == "thorough" and idx is not None and idx % 64 == 5 and cyc == 0:
            g.emit({"op": "new_doc", "rows": 1, "cols": 1, "hr": 0, "hc": 0})
            g.emit({"op": "write", "d": 1, "s": 0, "t": 0, "r": rng.randint(65_536, 70_000), "c": 0, "v": V.enc(g.value())})
        last = cyc == cycles - 1
        for d in range(len(g.ms.docs)):
            slot = rng.choice(ALL_SLOTS)
            g.emit({"op": "save", "d": d, "slot": slot})
            # either continue on the reopened file, or keep the same open document and save it again
            # later (repeated saves of one Document object re-key its lookup lists every time)
            if last or rng.random() < 0.5:
                g.emit({"op": "restart", "d": d, "slot": slot, "replace": True})
            elif rng.random() < 0.5:
                g.emit({"op": "restart", "d": d, "slot": slot, "replace": False})
                g.emit({"op": "drop", "d": len(g.ms.docs) - 1})
    return cfg, g.ops


def setup(sim: Sim) -> None:
    pass


def nontrivial(result: dict) -> bool:
    st = result["stats"]
    return st["restarts_ok"] >= 1 and st["ops"].get("write", 0) >= 20
