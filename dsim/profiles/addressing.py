"""C11: A1 and row/column addressing reach the same cell; bounds hold; iteration is exact."""

from __future__ import annotations

from dsim import allops  # noqa: F401
from dsim import values as V
from dsim.profiles.grid import Gen
from dsim.sim import ALL_SLOTS, Sim
from dsim.world import substream

PROPERTY = "C11"
DECOY = 0.25  # share of runs that edit a second document first and keep it open (runner.with_decoy)
RULE = (
    "one run = a document with two identically built tables; every position-taking call (write, set_cell_style, set_cell_formatting, "
    "set_cell_border; the arguments after the position vary per op and are the same for both: style by name or object, seven format kinds, a side or a list of sides x stroke length omitted/1/2/3) is sent to table 0 in row/column form and to table 1 in A1 or $A$1 form (lock-step twins, compared with each other "
    "and with the grid model after every op, growth must be to exactly the needed size); bad positions (row/col in -3..-1, n, n+1, MAX, MAX+1; "
    "'A0'; for all five methods incl. cell(); both notations) must raise IndexError with the whole document unchanged afterwards; lower-case "
    "A1 must hit the same cell or raise IndexError; cell() in three notations must return the identical cell object; iter_rows/iter_cols over "
    "min/max in {None,0,1,mid,last,last+1,-1} must yield exactly the model rectangle in order or raise IndexError when a bound is outside; "
    "structural edits, saves and restarts are interleaved. distinct = event-log digest; non-trivial = >= 3 twin ops, >= 2 bad-position probes and >= 2 iterations"
)
ASSUMPTIONS = [
    "bound: growth probes up to row 2000 / column 999 in the quick tier; the last legal row (A1000000) and column (ALL1) are written in A1 form once per THOROUGH batch (run index 7: 1e6 cell objects, minutes), never in quick",
    "bound: set_cell_formatting is only sent to positions holding a number (formatting an empty grown cell is a TypeError by design, not an addressing question)",
    "bound: inverted ranges (min > max) are not generated for iter_rows/iter_cols: unspecified",
]

METHODS = ["cell", "write", "set_cell_style", "set_cell_formatting", "set_cell_border"]
# beyond the limits incl. far beyond: columns whose A1 name has four and five letters (18278 = 'AAAA', 475254 = 'AAAAA'),
# rows with seven and more digits
BAD_CLASSES = [{"rel": "neg", "k": 1}, {"rel": "neg", "k": 2}, {"rel": "neg", "k": 3}, {"rel": "n", "k": 0}, {"rel": "n", "k": 1}, {"rel": "max", "k": 0}, {"rel": "max", "k": 1},
               {"rel": "max", "k": 17278}, {"rel": "max", "k": 17300}, {"rel": "max", "k": 474254}, {"rel": "max", "k": 9000000}]


def bound_spec(rng):
    return rng.choice([None, None, ["abs", 0], ["abs", 1], ["last", 0], ["last", -1], ["last", 1], ["abs", -1], ["last", 2]])


def gen_max_position(seed: int):
    """The last legal row and column, addressed in A1 form ('A1000000', 'ALL1') and the first ones beyond (once per thorough
    batch: 10^6 cell objects, ~3 GB, minutes)."""
    cfg = {"property": PROPERTY, "aspects": ["grid", "names"], "profile": "addressing", "_mix": {"f": 1}, "_long": False,
           "stratum": "max_position", "wall_cap": 1500}
    g = Gen(seed, "thorough", cfg)
    g.emit({"op": "new_doc", "rows": 1, "cols": 1, "hr": 0, "hc": 0})
    g.emit({"op": "write", "d": 0, "s": 0, "t": 0, "r": 0, "c": 999, "v": V.enc("last column"), "nota": "a1"})
    g.emit({"op": "bad_pos", "d": 0, "s": 0, "t": 0, "method": "write", "r": {"rel": "in", "k": 0}, "c": {"rel": "max", "k": 0}, "nota": "a1"})
    g.emit({"op": "read_pos", "d": 0, "s": 0, "t": 0, "r": 0, "c": 999})
    g.emit({"op": "new_doc", "d": 0, "rows": 1, "cols": 1, "hr": 0, "hc": 0})
    g.emit({"op": "drop", "d": 0})
    g.emit({"op": "write", "d": 0, "s": 0, "t": 0, "r": 999_999, "c": 0, "v": V.enc(12.5), "nota": "abs"})
    g.emit({"op": "bad_pos", "d": 0, "s": 0, "t": 0, "method": "write", "r": {"rel": "max", "k": 0}, "c": {"rel": "in", "k": 0}, "nota": "a1"})
    g.emit({"op": "bad_pos", "d": 0, "s": 0, "t": 0, "method": "cell", "r": {"rel": "max", "k": 0}, "c": {"rel": "in", "k": 0}, "nota": "a1"})
    g.emit({"op": "read_pos", "d": 0, "s": 0, "t": 0, "r": 999_999, "c": 0})
    return cfg, g.ops


def gen(seed: int, tier: str, idx=None):
    if tier == "thorough" and idx == 7:
        return gen_max_position(seed)
    rng0 = substream(seed, "swarm")
    cfg = {"property": PROPERTY, "aspects": ["grid", "names"], "profile": "addressing", "_mix": {"s": 2, "i": 3, "f": 2, "b": 1, "dt": 1, "td": 1}, "_long": False}
    g = Gen(seed, tier, cfg)
    rng = g.rng
    rows, cols = rng0.choice([(1, 1), (2, 3), (3, 2), (5, 4), (12, 8), (4, 27), (30, 2)])
    hr, hc = min(rng0.choice([0, 1, 1]), rows), min(rng0.choice([0, 1, 1]), cols)
    g.emit({"op": "new_doc", "rows": rows, "cols": cols, "hr": hr, "hc": hc})
    g.emit({"op": "add_table", "d": 0, "s": 0, "rows": rows, "cols": cols, "hr": hr, "hc": hc, "name": "Twin"})
    steps = rng0.randint(8, 36 if tier == "thorough" else 26)
    weights = {"twin_write": 10, "twin_other": 5, "bad_pos": 10, "lower": 2, "read": 3, "iter": 10, "struct": 3, "save": 2, "restart": 2}
    if substream(seed, "addr-merges").random() < 0.4:
        # merged ranges in both twins: iteration and cell() must reach the placeholders that merge_cells created
        weights["merge"] = 2
        cfg["aspects"] = ["grid", "names", "merges"]
        g.ms.aspects = set(cfg["aspects"])
    names, wts = list(weights), list(weights.values())
    # stratified prefix: the first ops of run idx cover (method, bad class) pairs round-robin
    if idx is not None:
        pairs = [(m, ra, ca, nota) for m in METHODS for ra in range(len(BAD_CLASSES) + 1) for ca in (0, 1) for nota in ("rc", "a1")]
        m, ra, ca, nota = pairs[idx % len(pairs)]
        rcls = BAD_CLASSES[ra] if ra < len(BAD_CLASSES) else {"rel": "in", "k": rng0.randrange(50)}
        ccls = {"rel": "in", "k": rng0.randrange(50)} if (ca == 0 and ra < len(BAD_CLASSES)) else BAD_CLASSES[rng0.randrange(len(BAD_CLASSES))]
        g.emit({"op": "bad_pos", "d": 0, "s": 0, "t": rng0.randrange(2), "method": m, "r": rcls, "c": ccls, "nota": nota})
    used = []  # (row, col, notation) of earlier twin calls: the very same reference is revisited later, e.g. after the table shrank
    for _ in range(steps):
        kind = rng.choices(names, wts)[0]
        tm = g.ms.docs[0].model.sheets[0].tables[0]
        if kind == "twin_write":
            r = rng.random()
            nota = rng.choice(["a1", "a1", "abs"])
            if used and r < 0.3:
                row, col, nota = rng.choice(used)
            elif r < 0.75:
                row, col = g.index(tm.nrows), g.index(tm.ncols)
            else:
                row, col = tm.nrows - 1 + rng.randint(0, 3), min(999, tm.ncols - 1 + rng.choice([0, 0, 1, 2, 26, 27]))
            if max(row + 1, tm.nrows) * max(col + 1, tm.ncols) > 3000:
                row, col = g.index(tm.nrows), g.index(tm.ncols)
            used.append((row, col, nota))
            g.emit({"op": "twin", "d": 0, "s": 0, "method": rng.choice(["write", "write", "write", "set_cell_style", "set_cell_border"]) if (row, col, nota) in used[:-1] else "write",
                    "r": row, "c": col, "v": V.enc(g.value()), "nota": nota, "variant": rng.randrange(1000)})
        elif kind == "twin_other":
            method = rng.choice(["set_cell_style", "set_cell_border", "set_cell_formatting"])
            if method == "set_cell_formatting":
                # make sure a number is there first
                row, col = g.index(tm.nrows), g.index(tm.ncols)
                g.emit({"op": "twin", "d": 0, "s": 0, "method": "write", "r": row, "c": col, "v": V.enc(rng.randint(-500, 500) / 4), "nota": "a1"})
            elif rng.random() < 0.75:
                row, col = g.index(tm.nrows), g.index(tm.ncols)
            else:
                row, col = tm.nrows + rng.randint(0, 2), min(999, tm.ncols + rng.randint(0, 2))
            g.emit({"op": "twin", "d": 0, "s": 0, "method": method, "r": row, "c": col, "nota": rng.choice(["a1", "abs"]), "variant": rng.randrange(1000)})
        elif kind == "bad_pos":
            method = rng.choice(METHODS)
            if rng.random() < 0.5:
                rcls, ccls = rng.choice(BAD_CLASSES), {"rel": "in", "k": rng.randrange(50)}
            elif rng.random() < 0.7:
                rcls, ccls = {"rel": "in", "k": rng.randrange(50)}, rng.choice(BAD_CLASSES)
            else:
                rcls, ccls = rng.choice(BAD_CLASSES), rng.choice(BAD_CLASSES)
            g.emit({"op": "bad_pos", "d": 0, "s": 0, "t": rng.randrange(2), "method": method, "r": rcls, "c": ccls, "nota": rng.choice(["rc", "rc", "a1", "abs"])})
        elif kind == "lower":
            g.emit({"op": "lower_pos", "d": 0, "s": 0, "t": rng.randrange(2), "r": rng.randrange(2000), "c": rng.randrange(60)})
        elif kind == "read":
            g.emit({"op": "read_pos", "d": 0, "s": 0, "t": rng.randrange(2), "r": rng.randrange(2000), "c": rng.randrange(1000)})
        elif kind == "iter":
            o = {"op": "iter", "d": 0, "s": 0, "t": rng.randrange(2), "which": rng.choice(["rows", "cols"]), "values_only": rng.random() < 0.4}
            for k in ("min_row", "max_row", "min_col", "max_col"):
                b = bound_spec(rng)
                if b is not None:
                    o[k] = b
            g.emit(o)
        elif kind == "merge":
            from dsim.profiles.merge import gen_rect

            if rng.random() < 0.5:
                # iterate first: whatever the iteration remembers must not outlive the merge
                g.emit({"op": "iter", "d": 0, "s": 0, "t": rng.randrange(2), "which": rng.choice(["rows", "cols"]), "values_only": rng.random() < 0.4})
            rect = gen_rect(g, tm, rng)
            for t in (0, 1):
                g.emit({"op": "merge", "d": 0, "s": 0, "t": t, "rects": [rect]})
            if rng.random() < 0.7:
                g.emit({"op": "iter", "d": 0, "s": 0, "t": rng.randrange(2), "which": rng.choice(["cols", "cols", "rows"]), "values_only": rng.random() < 0.4})
        elif kind == "struct":
            opn = rng.choice(["add_row", "add_col", "del_row", "del_col", "del_row", "del_col"])
            o = {"op": opn, "d": 0, "s": 0, "n": rng.choice([1, 1, 2, 3])}
            size = tm.nrows if "row" in opn else tm.ncols
            if rng.random() < 0.5:
                o["at"] = g.index(size)
            for t in (0, 1):
                oo = dict(o)
                oo["t"] = t
                g.emit(oo)
        elif kind == "save":
            g.emit({"op": "save", "d": 0, "slot": rng.choice(ALL_SLOTS)})
        elif kind == "restart":
            slots = [n for n, sl in g.ms.slots.items() if sl.status == "good"]
            if slots:
                g.emit({"op": "restart", "d": 0, "slot": rng.choice(slots)})
    slot = rng.choice(ALL_SLOTS)
    g.emit({"op": "save", "d": 0, "slot": slot})
    g.emit({"op": "restart", "d": 0, "slot": slot})
    return cfg, g.ops


def setup(sim: Sim) -> None:
    pass


def nontrivial(result: dict) -> bool:
    ops = result["stats"]["ops"]
    return ops.get("twin", 0) >= 3 and ops.get("bad_pos", 0) >= 2 and ops.get("iter", 0) >= 2
