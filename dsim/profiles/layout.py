"""C06: what is read does not depend on meaning-preserving choices of file layout."""

from __future__ import annotations

import json
import os

from dsim import allops  # noqa: F401
from dsim import relayout
from dsim import values as V
from dsim.profiles.grid import Gen
from dsim.profiles.look import gen_attrs
from dsim.sim import ALL_SLOTS, Sim
from dsim.world import substream

PROPERTY = "C06"
RULE = (
    "metamorphic: one run = one source document (run index enumerates the shipped fixtures that open; 35% of runs build a document in-run "
    "with many distinct strings / formats / styles so every lookup list has > 1 entry, empty rows and wide tables) x a composition of 1-3 seeded "
    "layout rewrites applied on disk by an actor using an independent IWA codec: zip member order, stored vs deflated members, single file <-> "
    "package with Index.zip <-> package with loose Index/, re-chunking of every archive (1 byte .. 64 KiB, equal or ragged), permutation of the "
    "entries of every TST.TableDataList, byte <-> 4-byte-unit cell offsets where representable, explicit header records for a random half of the "
    "rows that have no storage record; directory order is permuted on every listdir call. Oracles: deep snapshot (order, names, class, typed value, "
    "formula, formatted value, bullets, hyperlinks, merge state) of the rewritten file equals that of the original; no lookup fails for a key "
    "present in its list (run-time wrapper, counting only); every stored row is reported at the row index its own TileRowInfo declares "
    "(checked with the independent codec); in-run documents relaid in their slot must still reopen equal to the model. distinct = event-log "
    "digest (includes sha1 of the rewritten file); non-trivial = >= 1 comparison completed after >= 1 rewrite that changed something"
)
ASSUMPTIONS = [
    "the perturbations are exactly those listed in the statement; each is meaning-preserving on the evidence of the shipped fixtures (explicit keys on list entries, explicit tile_row_index on rows; both offset encodings and all three container forms occur in tests/data)",
    "chunks are always snappy-compressed (a stored chunk cannot be told from a compressed one by any reader); order of header records inside a bucket is not perturbed (not listed in the statement)",
]

with open(os.path.join(os.path.dirname(os.path.dirname(__file__)), "fixtures.json")) as _fh:
    _SURVEY = json.load(_fh)
FIX = sorted(k for k, v in _SURVEY.items() if v.get("opens"))
FIX_QUICK = [k for k in FIX if (_SURVEY[k].get("cells") or 0) <= 2500]


def gen(seed: int, tier: str, idx=None):
    rng0 = substream(seed, "swarm")
    cfg = {"property": PROPERTY, "aspects": ["grid", "names"], "profile": "layout", "_mix": {"s": 5, "i": 2, "f": 2, "b": 1, "dt": 1, "td": 1}, "_long": False}
    g = Gen(seed, tier, cfg)
    rng = g.rng
    pool = FIX if tier == "thorough" else FIX_QUICK
    specs = [relayout.gen_relayout(rng) for _ in range(rng.choices([1, 2, 3], [5, 3, 1])[0])]
    cap = None if tier == "thorough" else 400
    in_run = (idx is not None and idx % 20 in (2, 5, 8, 11, 14, 17, 19)) or (idx is None and rng0.random() < 0.35)
    if not in_run:
        j = idx if idx is not None else rng0.randrange(10_000)
        name = pool[(j - (j // 20) * 7) % len(pool)] if idx is not None else pool[j % len(pool)]
        g.emit({"op": "layout_compare", "name": name, "specs": specs, "deep_cap": cap})
        return cfg, g.ops
    cls = rng0.choice(["small", "small", "tile", "wide", "bigstrings"])
    if cls == "bigstrings":
        # one archive (the string list) far beyond 64 KiB even after compression, so that a re-chunking into
        # few large chunks produces compressed chunks whose length needs all 24 bits of the length field
        import string

        alphabet = string.ascii_letters + string.digits + "+/äöüß€"
        # distinct strings built from a small vocabulary: compressible (so the library's own 64 KiB chunks stay
        # well below 64 KiB compressed and the ORIGINAL is read correctly) yet large as a whole
        vocab = ["".join(rng.choice(alphabet) for _ in range(rng.randint(4, 10))) for _ in range(150)]
        n = rng0.randint(300, 420)
        g.emit({"op": "new_doc", "rows": n, "cols": 1, "hr": 0, "hc": 0})
        for r in range(n):
            g.emit({"op": "write", "d": 0, "s": 0, "t": 0, "r": r, "c": 0, "v": V.enc(f"{r} " + " ".join(rng.choice(vocab) for _ in range(110)))})
        slot = rng.choice(ALL_SLOTS)
        g.emit({"op": "save", "d": 0, "slot": slot})
        g.emit({"op": "restart", "d": 0, "slot": slot, "replace": False})
        big = dict(specs[0])
        big["kinds"] = sorted(set(big["kinds"]) | {"rechunk"})
        big["chunk"] = rng.choice(["whole", 200_000, 1_000_000, 131_072])
        g.emit({"op": "layout_compare", "slot": slot, "specs": [big], "deep_cap": cap})
        g.emit({"op": "relayout_slot", "slot": slot, "spec": big})
        g.emit({"op": "restart", "d": 0, "slot": slot})
        return cfg, g.ops
    if cls == "small":
        rows, cols = rng0.randint(2, 12), rng0.randint(2, 8)
    elif cls == "tile":
        rows, cols = rng0.choice([255, 256, 257, 300, 513, 600]), rng0.randint(1, 3)
    else:
        rows, cols = rng0.randint(1, 3), rng0.choice([255, 256, 257])
    g.emit({"op": "new_doc", "rows": rows, "cols": cols, "hr": rng0.choice([0, 1]), "hc": rng0.choice([0, 1])})
    for _ in range(rng0.randint(6, 40)):
        m = g.ms.docs[0].model
        s = rng.randrange(len(m.sheets))
        t = rng.randrange(len(m.sheets[s].tables))
        tm = m.sheets[s].tables[t]
        k = rng.choices(["write", "add_table", "style", "add_row_gap", "format", "formula"], [14, 1, 2, 1, 4, 2])[0]
        if k == "write":
            g.emit({"op": "write", "d": 0, "s": s, "t": t, "r": g.index(tm.nrows), "c": g.index(tm.ncols), "v": V.enc(g.value())})
        elif k == "add_table":
            g.emit({"op": "add_table", "d": 0, "s": s, "rows": rng.randint(1, 6), "cols": rng.randint(1, 6)})
        elif k == "format":
            rr, cc = g.index(tm.nrows), g.index(tm.ncols)
            g.emit({"op": "write", "d": 0, "s": s, "t": t, "r": rr, "c": cc, "v": V.enc(V.gen_value(rng, {"i": 3, "f": 3, "b": 1, "s": 1, "dt": 1}, False))})
            g.emit({"op": "set_format" if rng.random() < 0.75 else "custom_format", "d": 0, "s": s, "t": t, "r": rr, "c": cc, "k": rng.randrange(1000), "name": None})
        elif k == "formula":
            rr, cc = g.index(tm.nrows), g.index(tm.ncols)
            g.emit({"op": "write", "d": 0, "s": s, "t": t, "r": rr, "c": cc, "v": V.enc(V.gen_value(rng, {"i": 3, "f": 3}, False))})
            g.emit({"op": "set_formula", "d": 0, "s": s, "t": t, "r": rr, "c": cc, "k": rng.randrange(1000)})
            if rng.random() < 0.4:
                g.emit({"op": "set_format", "d": 0, "s": s, "t": t, "r": rr, "c": cc, "k": rng.randrange(1000), "kind": rng.choice(["slider", "stepper", "popup_num", "number"])})
        elif k == "style":
            g.emit({"op": "add_style", "d": 0, "attrs": gen_attrs(rng), "name": None})
            g.emit({"op": "set_style", "d": 0, "s": s, "t": t, "r": rng.randrange(tm.nrows), "c": rng.randrange(tm.ncols), "style": rng.randrange(8)})
        else:
            if tm.ncells() < 3000:
                g.emit({"op": "add_row", "d": 0, "s": s, "t": t, "n": rng.randint(1, 3), "at": g.index(tm.nrows)})
    slot = rng.choice(ALL_SLOTS)
    g.emit({"op": "save", "d": 0, "slot": slot})
    g.emit({"op": "layout_compare", "slot": slot, "specs": specs, "deep_cap": cap})
    # the same document relaid in place by the disk actor must still reopen equal to the model
    g.emit({"op": "relayout_slot", "slot": slot, "spec": relayout.gen_relayout(rng)})
    g.emit({"op": "restart", "d": 0, "slot": slot})
    return cfg, g.ops


def setup(sim: Sim) -> None:
    pass


def nontrivial(result: dict) -> bool:
    st = result["stats"]
    return st["ops"].get("layout_compare", 0) >= 1 and st["outcomes"].get("ok", 0) >= 1 and sum(st.get("faults", {}).values()) >= 1


def evidence_extra(agg) -> dict:
    return {"layout_rewrites_applied_by_kind": agg["stats"].get("faults", {})}
