"""C16: table geometry and labels survive save and reopen unchanged."""

from __future__ import annotations

import json
import os

from dsim import allops  # noqa: F401
from dsim import ops_geom
from dsim import values as V
from dsim.profiles.grid import Gen, NAME_POOL
from dsim.profiles.look import gen_border
from dsim.sim import ALL_SLOTS, Sim
from dsim.world import substream

PROPERTY = "C16"
DECOY = 0.25  # share of runs that edit a second document first and keep it open (runner.with_decoy)
RULE = (
    "two arms. (a) API arm: a seeded history on new documents setting any subset of row_height, col_width, header counts, table/sheet names, "
    "caption text, caption/name visibility, add_table(x, y), with strokes of various widths on rows/columns, with or without size observers "
    "(row_height/col_width/height/width of a cell, a row or the table) scheduled before saves, over 1-3 save/restart cycles; every reopened file "
    "is read through a separate probe instance (so the working instance stays exactly as queried as the schedule says) and must report every "
    "set value. (b) source arm (40% of runs): observer twin on a shipped document - instance A receives size/style/border observers, B none; "
    "both are saved and reopened 1-3 cycles; B's reload must equal the pristine source (source_values_survive), A's reload must equal B's "
    "(queried_or_not), and cycle k+1 must equal cycle k (no_drift). distinct = event-log digest; non-trivial = a completed cycle with >= 1 set value or a completed twin run"
)
ASSUMPTIONS = [
    "bound: sizes are whole numbers of points in 10..400 as documented (int)",
    "not judged: the height of a row / width of a column that was set through the API and THEN had a stroke drawn on one of its edges (what the allowance for the new stroke should do to an explicit size is not specified); counted in probes",
]

with open(os.path.join(os.path.dirname(os.path.dirname(__file__)), "fixtures.json")) as _fh:
    _SURVEY = json.load(_fh)
TWIN_FIX = sorted(k for k, v in _SURVEY.items() if v.get("opens") and (v.get("cells") or 0) <= 3000 and not v.get("warnings"))


def gen(seed: int, tier: str, idx=None):
    rng0 = substream(seed, "swarm")
    cfg = {"property": PROPERTY, "aspects": ["grid", "names", "look", "geom"], "profile": "geometry", "_mix": {"s": 2, "i": 2}, "_long": False, "writes_in_bounds": True}
    cfg["live_geometry_after_save"] = substream(seed, "livegeom").random() < 0.5
    g = Gen(seed, tier, cfg)
    rng = g.rng
    if rng0.random() < 0.4:
        kinds = ["row_height", "col_width", "size", "style", "border", "formatted_value"]
        n = rng.randint(1, 3)
        obs = [{"kind": rng.choice(kinds), "scope": rng.choice(["cell", "table", "table"]), "s": rng.randrange(4), "t": rng.randrange(4),
                "r": rng.randrange(40), "c": rng.randrange(12)} for _ in range(n)]
        fx = TWIN_FIX[(idx // 2) % len(TWIN_FIX)] if (idx is not None and idx % 2 == 0) else rng.choice(TWIN_FIX)
        g.emit({"op": "twin_resave", "name": fx, "observers": obs, "cycles": rng.choice([1, 2, 3]), "snap": "geom", "vs_source": True,
                "package": rng.random() < 0.25, "observe_each_cycle": rng.random() < 0.5})
        cfg["twin_run"] = True
        return cfg, g.ops
    rows, cols = rng0.randint(1, 8), rng0.randint(1, 7)
    on_fixture = substream(seed, "geomfix").random() < 0.3
    if on_fixture:
        # the same edit histories on a loaded document: its tables have never had a caption (a stand-in object), carry
        # sizes, strokes and header counts from the file, and nothing about them has been read yet
        small = [k for k in TWIN_FIX if (_SURVEY[k].get("cells") or 0) <= 400]
        g.emit({"op": "open_fixture", "name": small[(idx // 3) % len(small)] if idx is not None else rng0.choice(small)})
        cfg["on_fixture"] = True
    else:
        g.emit({"op": "new_doc", "rows": rows, "cols": cols, "hr": min(rng0.choice([0, 1, 1, 2]), rows), "hc": min(rng0.choice([0, 1, 1]), cols)})
    steps = rng0.randint(4, 24 if tier == "thorough" else 16)
    weights = {"row_h": 6, "col_w": 6, "headers": 2, "caption": 3, "rename": 2, "add_table": 2, "border": 4, "observe": 5, "save": 3, "restart": 3, "write": 1, "struct": 2, "merge": 1.5}
    if not on_fixture and rng0.random() < 0.5:
        # merged ranges, also across the header/body boundary, in tables without strokes (the two exclude each other here)
        cfg["aspects"] = ["grid", "names", "look", "geom", "merges"]
        g.ms.aspects = set(cfg["aspects"])
    else:
        weights["merge"] = 0
    for k in ("border", "observe", "struct"):
        if rng0.random() < 0.35:
            weights[k] = 0
    names, wts = list(weights), list(weights.values())
    for _ in range(steps):
        kind = rng.choices(names, wts)[0]
        m = g.ms.docs[0].model
        s = rng.randrange(len(m.sheets))
        t = rng.randrange(len(m.sheets[s].tables))
        tm = m.sheets[s].tables[t]
        if kind == "row_h":
            g.emit({"op": "set_row_height", "d": 0, "s": s, "t": t, "r": g.index(tm.nrows), "h": rng.choice([10, 20, 21, 40, 50, 100, rng.randint(10, 400)])})
        elif kind == "col_w":
            g.emit({"op": "set_col_width", "d": 0, "s": s, "t": t, "c": g.index(tm.ncols), "w": rng.choice([30, 98, 99, 150, 200, rng.randint(10, 400)])})
        elif kind == "headers":
            g.emit({"op": "set_headers", "d": 0, "s": s, "t": t, "hr": rng.randint(0, 3), "hc": rng.randint(0, 3)})
        elif kind == "caption":
            if rng.random() < 0.4:
                # callers typically look before they change: the read may be remembered by the library
                g.emit({"op": "observe", "d": 0, "s": s, "t": t, "kind": "labels", "scope": "table", "r": 0, "c": 0})
            o = {"op": "set_caption", "d": 0, "s": s, "t": t}
            r = rng.random()
            if r < 0.5:
                o["text"] = rng.choice(["Caption", "A caption", "", "Ünïcode caption \U0001F600", "line1\nline2", V.gen_text(rng, False)[:40]])
            if rng.random() < 0.5:
                o["enabled"] = rng.random() < 0.6
            if rng.random() < 0.4:
                o["name_enabled"] = rng.random() < 0.5
            if len(o) > 5:
                g.emit(o)
                if rng.random() < 0.4:
                    g.emit({"op": "observe", "d": 0, "s": s, "t": t, "kind": "labels", "scope": "table", "r": 0, "c": 0})
        elif kind == "rename":
            if rng.random() < 0.5:
                g.emit({"op": "rename_table", "d": 0, "s": s, "t": t, "name": rng.choice(NAME_POOL)})
            else:
                g.emit({"op": "rename_sheet", "d": 0, "s": s, "name": rng.choice(NAME_POOL)})
        elif kind == "add_table":
            o = {"op": "add_table", "d": 0, "s": s, "rows": rng.randint(1, 5), "cols": rng.randint(1, 5), "hr": rng.choice([0, 1]), "hc": rng.choice([0, 1])}
            if rng.random() < 0.7:
                o["x"], o["y"] = float(rng.randint(0, 1000)), float(rng.randint(0, 1000))
            g.emit(o)
        elif kind == "border":
            o = gen_border(g, rng, tm, s=s, t=t)
            o["width"] = rng.choice([0.35, 1.0, 2.0, 3.0, 4.0, 6.0, 8.0])
            g.emit(o)
        elif kind == "observe":
            g.emit({"op": "observe", "d": 0, "s": s, "t": t, "kind": rng.choice(["row_height", "col_width", "size", "border", "style", "labels", "labels"]),
                    "scope": rng.choice(["cell", "row", "table"]), "r": rng.randrange(20), "c": rng.randrange(20)})
        elif kind == "write":
            g.emit({"op": "write", "d": 0, "s": s, "t": t, "r": g.index(tm.nrows), "c": g.index(tm.ncols), "v": V.enc(g.value())})
        elif kind == "merge":
            if not tm.hedge and not tm.vedge and not tm.styles:
                from dsim.profiles.merge import gen_rect

                g.emit({"op": "merge", "d": 0, "s": s, "t": t, "rects": [gen_rect(g, tm, rng)]})
        elif kind == "struct":
            # rows/columns inserted or removed before, between and after sized ones: the model forgets what sits at or
            # beyond the edit, the open document's own report must still survive the save
            k2 = rng.choice(["add_row", "add_col", "del_row", "del_col"])
            size = tm.nrows if "row" in k2 else tm.ncols
            # not on tables that carry strokes: whether strokes travel with their cells is C15's business, and C15 does
            # not quantify over structural edits (on the pinned tree they do not travel in the saved file - noted in DESIGN)
            if tm.ncells() < 400 and (k2.startswith("add") or size > 1) and not tm.hedge and not tm.vedge and not g.cfg.get("on_fixture"):
                o = {"op": k2, "d": 0, "s": s, "t": t, "n": 1 if rng.random() < 0.7 else min(2, max(1, size - 1))}
                if rng.random() < 0.7:
                    o["at"] = g.index(size)
                g.emit(o)
        elif kind == "save":
            g.emit({"op": "save", "d": 0, "slot": rng.choice(ALL_SLOTS)})
        elif kind == "restart":
            slots = [n for n, sl in g.ms.slots.items() if sl.status == "good"]
            if slots:
                g.emit({"op": "restart", "d": 0, "slot": rng.choice(slots)})
                if rng.random() < 0.6:
                    set_sizes_on_reopened(g, rng)
    # 1..3 closing cycles with no edits in between: the values must keep surviving (no drift)
    for _ in range(rng.choice([1, 2, 3])):
        if rng.random() < 0.3:
            g.emit({"op": "observe", "d": 0, "s": 0, "t": 0, "kind": rng.choice(["row_height", "col_width", "size"]), "scope": "table"})
        slot = rng.choice(ALL_SLOTS)
        g.emit({"op": "save", "d": 0, "slot": slot})
        g.emit({"op": "restart", "d": 0, "slot": slot})
    return cfg, g.ops


def set_sizes_on_reopened(g, rng) -> None:
    """Right after a restart nothing has been queried yet and the strokes still sit unread in the file: set sizes on
    rows/columns that carry strokes (and on their neighbours), then save and reopen without any observer in between."""
    m = g.ms.docs[0].model
    for s, t, tm in list(m.tables())[:3]:
        rows = sorted({k[0] for k in tm.hedge if k[0] < tm.nrows} | {k[0] - 1 for k in tm.hedge if k[0] >= 1})
        cols = sorted({k[1] for k in tm.vedge if k[1] < tm.ncols} | {k[1] - 1 for k in tm.vedge if k[1] >= 1})
        for r in rows[:3]:
            g.emit({"op": "set_row_height", "d": 0, "s": s, "t": t, "r": r, "h": rng.randint(25, 300)})
        for c in cols[:3]:
            g.emit({"op": "set_col_width", "d": 0, "s": s, "t": t, "c": c, "w": rng.randint(25, 300)})
        if not rows and not cols and rng.random() < 0.5:
            g.emit({"op": "set_col_width", "d": 0, "s": s, "t": t, "c": g.index(tm.ncols), "w": rng.randint(25, 300)})
    slot = rng.choice(ALL_SLOTS)
    g.emit({"op": "save", "d": 0, "slot": slot})
    g.emit({"op": "restart", "d": 0, "slot": slot})


def setup(sim: Sim) -> None:
    sim.cfg.setdefault("_reopen_checks", []).append(ops_geom.reopen_check)
    sim.save_hooks.append(ops_geom.live_geometry_hook)


def nontrivial(result: dict) -> bool:
    st = result["stats"]
    ops = st["ops"]
    if ops.get("twin_resave", 0) and st["outcomes"].get("ok", 0):
        return True
    sets = sum(ops.get(k, 0) for k in ("set_row_height", "set_col_width", "set_headers", "set_caption", "add_table"))
    return sets >= 1 and st["restarts_ok"] >= 1
