"""Deterministic simulation with fault injection for numbers-parser (see /verif/DESIGN.md)."""
