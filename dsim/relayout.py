"""Meaning-preserving rewrites of a document's storage layout (fault catalogue F4 of DESIGN.md)."""

from __future__ import annotations

import random
import struct
import zipfile

from dsim.container import write_container
from dsim.iwa_indep import Segment as iwa_Segment
from dsim.pkg import Package

KINDS = ["member_order", "compression", "form", "rechunk", "list_perm", "offsets", "empty_row_headers", "record_order"]


def gen_relayout(rng) -> dict:
    kinds = [k for k in KINDS if rng.random() < 0.45] or [rng.choice(KINDS)]
    return {"kinds": kinds, "seed": rng.getrandbits(32), "form": rng.choice(["file", "pkgzip", "pkgloose"]),
            "chunk": rng.choice([1, 2, 7, 64, 1000, 4096, 65535, 65536, "ragged", 200_000, 1_000_000, "whole"]), "offset_mode": rng.choice(["narrow", "wide", "flip"]),
            "per_row": rng.choice([1.0, 0.5, 0.5, 0.2])}


def apply_relayout(path: str, spec: dict) -> dict:
    """Rewrite the document at ``path`` in place; returns counters of what was actually changed."""
    rng = random.Random(spec["seed"])
    pkg = Package.read(path)
    c = pkg.container
    done = {}
    touched_members = set()
    kinds = spec["kinds"]

    if "list_perm" in kinds:
        n = 0
        for o in pkg.by_type("TST.TableDataList"):
            msg = o.msg
            if len(msg.entries) < 2:
                continue
            entries = [e.SerializeToString() for e in msg.entries]
            perm = list(range(len(entries)))
            rng.shuffle(perm)
            if perm == sorted(perm):
                perm.reverse()
            cls = type(msg.entries[0])
            del msg.entries[:]
            for i in perm:
                e = cls()
                e.ParseFromString(entries[i])
                msg.entries.append(e)
            o.commit()
            touched_members.add(o.member)
            n += 1
        done["lists_permuted"] = n

    if "offsets" in kinds:
        n_to_narrow = n_to_wide = 0
        for o in pkg.by_type("TST.Tile"):
            changed = False
            # rows of one tile are converted independently (real tiles may mix both encodings row by row)
            per_row = spec.get("per_row", 1.0)
            for ri in o.msg.rowInfos:
                if not ri.cell_offsets:
                    continue
                if rng.random() >= per_row:
                    continue
                if ri.HasField("has_wide_offsets") and not ri.has_wide_offsets and rng.random() < 0.3:
                    ri.ClearField("has_wide_offsets")  # an explicit False dropped: same meaning
                    changed = True
                    continue
                cnt = len(ri.cell_offsets) // 2
                offs = list(struct.unpack(f"<{cnt}h", ri.cell_offsets))
                mode = spec["offset_mode"]
                if ri.has_wide_offsets and mode in ("narrow", "flip"):
                    byte_offs = [x * 4 if x >= 0 else x for x in offs]
                    if all(x < 32768 for x in byte_offs):
                        ri.cell_offsets = struct.pack(f"<{cnt}h", *byte_offs)
                        # "not wide" is an explicit False or simply the absence of the optional field
                        if rng.random() < 0.5:
                            ri.has_wide_offsets = False
                        else:
                            ri.ClearField("has_wide_offsets")
                        n_to_narrow += 1
                        changed = True
                elif (not ri.has_wide_offsets) and mode in ("wide", "flip"):
                    if all(x < 0 or x % 4 == 0 for x in offs):
                        ri.cell_offsets = struct.pack(f"<{cnt}h", *[x // 4 if x >= 0 else x for x in offs])
                        ri.has_wide_offsets = True
                        n_to_wide += 1
                        changed = True
            if changed:
                o.commit()
                touched_members.add(o.member)
        done["rows_to_byte_offsets"] = n_to_narrow
        done["rows_to_4byte_offsets"] = n_to_wide

    if "record_order" in kinds:
        # "every stored row is reported at the row index its own storage record declares": a tile reference declares its
        # tileid and a row record its tile_row_index, so where either sits in its repeated field is layout
        n_tiles = n_rows = 0
        for t in pkg.table_models():
            refs = t.msg.base_data_store.tiles.tiles
            if len(refs) > 1:
                raws = [x.SerializeToString() for x in refs]
                perm = list(range(len(raws)))
                rng.shuffle(perm)
                if perm == sorted(perm):
                    perm.reverse()
                cls = type(refs[0])
                del refs[:]
                for i in perm:
                    x = cls()
                    x.ParseFromString(raws[i])
                    refs.append(x)
                t.commit()
                touched_members.add(t.member)
                n_tiles += 1
        for o in pkg.by_type("TST.Tile"):
            infos = o.msg.rowInfos
            if len(infos) > 1 and rng.random() < 0.7:
                raws = [x.SerializeToString() for x in infos]
                rng.shuffle(raws)
                cls = type(infos[0])
                del infos[:]
                for raw in raws:
                    x = cls()
                    x.ParseFromString(raw)
                    infos.append(x)
                o.commit()
                touched_members.add(o.member)
                n_rows += 1
        done["tile_lists_permuted"] = n_tiles
        done["tiles_with_row_records_permuted"] = n_rows
        # the row records of one tile spread over TWO Tile objects that carry the same tile id (each record still
        # declares its own index)
        n_split = 0
        next_id = max(pkg.objects) + 1000
        for t in pkg.table_models():
            if rng.random() >= 0.5:
                continue
            refs = t.msg.base_data_store.tiles.tiles
            if not refs:
                continue
            ref = refs[rng.randrange(len(refs))]
            o = pkg.objects.get(ref.tile.identifier)
            if o is None or o.type_name != "TST.Tile" or len(o.msg.rowInfos) < 2 or len(o.seg.payloads) != 1:
                continue
            infos = [x.SerializeToString() for x in o.msg.rowInfos]
            pick = rng.choice(["halves", "evenodd", "random"])
            if pick == "halves":
                mine = set(range(len(infos) // 2))
            elif pick == "evenodd":
                mine = set(range(0, len(infos), 2))
            else:
                mine = {i for i in range(len(infos)) if rng.random() < 0.5} or {0}
                if len(mine) == len(infos):
                    mine.discard(len(infos) - 1)
            import copy as _copy

            from dsim.pkg import Obj

            cls = type(o.msg.rowInfos[0])
            twin_msg = type(o.msg)()
            twin_msg.CopyFrom(o.msg)
            del o.msg.rowInfos[:]
            del twin_msg.rowInfos[:]
            for i, raw in enumerate(infos):
                x = cls()
                x.ParseFromString(raw)
                (o.msg if i in mine else twin_msg).rowInfos.append(x)
            o.msg.numrows = len(o.msg.rowInfos)
            twin_msg.numrows = len(twin_msg.rowInfos)
            o.commit()
            info2 = _copy.deepcopy(o.seg.info)
            info2.identifier = next_id
            seg2 = iwa_Segment(info2, [twin_msg.SerializeToString()])
            pkg.streams[o.member].append(seg2)
            pkg.objects[next_id] = Obj(next_id, o.member, seg2, o.type_id)
            new_ref = type(ref)()
            new_ref.CopyFrom(ref)
            new_ref.tile.identifier = next_id
            pos = rng.randrange(len(refs) + 1)
            raws = [x.SerializeToString() for x in refs]
            raws.insert(pos, new_ref.SerializeToString())
            del refs[:]
            for raw in raws:
                x = type(ref)()
                x.ParseFromString(raw)
                refs.append(x)
            t.commit()
            touched_members.add(o.member)
            touched_members.add(t.member)
            next_id += 1
            n_split += 1
        done["tiles_split_in_two"] = n_split

    if "empty_row_headers" in kinds:
        # a row record in the TILE for rows that have none (they read as empty either way): with a full offset table in
        # which every column is absent (what writers emit for a row of empty cells), or with the required fields only
        n_tile_rows = 0
        for t in pkg.table_models():
            tiles, tile_size = pkg.tiles_of(t)
            ncols = t.msg.number_of_columns
            nrows = t.msg.number_of_rows
            have = set()
            by_tid = {}
            for tid, tobj in tiles:
                if tobj is None or tobj.type_name != "TST.Tile":
                    continue
                by_tid.setdefault(tid, tobj)
                for ri in tobj.msg.rowInfos:
                    have.add(tid * tile_size + ri.tile_row_index)
            cands = [r for r in range(nrows) if r not in have and (r // tile_size) in by_tid]
            rng.shuffle(cands)
            for r in cands[: max(1, len(cands) // 2)] if cands else []:
                tobj = by_tid[r // tile_size]
                ri = type(tobj.msg.rowInfos[0])() if len(tobj.msg.rowInfos) else None
                if ri is None:
                    continue
                ri.tile_row_index = r % tile_size
                ri.cell_count = 0
                ri.cell_storage_buffer_pre_bnc = b""
                ri.cell_offsets_pre_bnc = b""
                if rng.random() < 0.5:
                    ri.storage_version = 5
                    ri.cell_storage_buffer = b""
                    ri.cell_offsets = struct.pack(f"<{ncols}h", *([-1] * ncols))
                    ri.has_wide_offsets = rng.random() < 0.5
                raws = [x.SerializeToString() for x in tobj.msg.rowInfos]
                raws.insert(rng.randrange(len(raws) + 1), ri.SerializeToString())
                cls = type(tobj.msg.rowInfos[0])
                del tobj.msg.rowInfos[:]
                for raw in raws:
                    x = cls()
                    x.ParseFromString(raw)
                    tobj.msg.rowInfos.append(x)
                tobj.msg.numrows = len(tobj.msg.rowInfos)
                tobj.commit()
                touched_members.add(tobj.member)
                n_tile_rows += 1
        done["empty_row_tile_records_added"] = n_tile_rows

    if "empty_row_headers" in kinds or "header_order" in kinds:
        added = reordered = 0
        for t in pkg.table_models():
            tiles, tile_size = pkg.tiles_of(t)
            stored = set()
            for tid, tobj in tiles:
                if tobj is None:
                    continue
                for ri in tobj.msg.rowInfos:
                    stored.add(tid * tile_size + ri.tile_row_index)
            buckets = [b for b in pkg.row_header_buckets(t) if b is not None]
            if not buckets:
                continue
            b = buckets[0]
            have = {h.index for bb in buckets for h in bb.msg.headers}
            nrows = t.msg.number_of_rows
            changed = False
            if "empty_row_headers" in kinds:
                cands = [r for r in range(nrows) if r not in stored and r not in have]
                rng.shuffle(cands)
                for r in cands[: max(1, len(cands) // 2)] if cands else []:
                    h = b.msg.headers.add()
                    h.index = r
                    h.numberOfCells = 0
                    h.size = 0.0
                    h.hidingState = 0
                    added += 1
                    changed = True
            if "header_order" in kinds and len(b.msg.headers) > 1:
                hs = [h.SerializeToString() for h in b.msg.headers]
                rng.shuffle(hs)
                cls = type(b.msg.headers[0])
                del b.msg.headers[:]
                for raw in hs:
                    h = cls()
                    h.ParseFromString(raw)
                    b.msg.headers.append(h)
                reordered += 1
                changed = True
            elif changed:
                # keep the bucket ordered by row index as Numbers writes it
                hs = sorted(((h.index, h.SerializeToString()) for h in b.msg.headers))
                cls = type(b.msg.headers[0])
                del b.msg.headers[:]
                for _i, raw in hs:
                    h = cls()
                    h.ParseFromString(raw)
                    b.msg.headers.append(h)
            if changed:
                b.commit()
                touched_members.add(b.member)
        done["empty_row_headers_added"] = added
        done["header_buckets_reordered"] = reordered

    rechunk = "rechunk" in kinds
    n_rechunk = 0
    for name in list(pkg.streams):
        if name in touched_members or rechunk:
            sizes = None
            if rechunk:
                ch = spec["chunk"]
                if ch == "ragged":
                    sizes = [rng.choice([1, 3, 17, 255, 256, 4096, 65536]) for _ in range(8)]
                elif ch == "whole":
                    sizes = [(1 << 24) - 4096]
                else:
                    sizes = [int(ch)]
                # 1-byte chunks of a big archive cost too much: bound the number of chunks
                raw_len = sum(len(p) for s in pkg.streams[name] for p in s.payloads)
                if raw_len // max(1, min(sizes)) > 20_000:
                    sizes = [max(sizes[0], raw_len // 20_000 + 1)]
                n_rechunk += 1
            # always snappy-compressed: a stored chunk cannot be told from a compressed one by any reader
            pkg.rebuild_member(name, sizes, compress=True, max_chunk=(1 << 24) - 4096)
    done["members_rechunked"] = n_rechunk
    done["members_reencoded"] = len(touched_members)

    order = list(c.zip_order)
    if "member_order" in kinds:
        rng.shuffle(order)
        done["member_order_permuted"] = 1
    methods = None
    if "compression" in kinds:
        methods = {n: rng.choice([zipfile.ZIP_STORED, zipfile.ZIP_DEFLATED]) for n in order}
        done["compression_mixed"] = 1
    form = c.form
    if "form" in kinds and spec["form"] != c.form:
        form = spec["form"]
        done["form_changed_to_" + form] = 1
    write_container(path, c, form=form, order=order, methods=methods)
    return done
