"""Batch runner: seeds -> runs on 16 forked workers -> shrink -> replay file -> evidence."""

from __future__ import annotations

import faulthandler
import gc
import hashlib
import importlib
import json
import os
import pickle
import subprocess
import sys
import time
import traceback
import warnings
from concurrent.futures import ProcessPoolExecutor, as_completed
from multiprocessing import get_context

VERIF = os.path.dirname(os.path.dirname(os.path.abspath(__file__)))
PY = "/venv/bin/python"
RUN_WALL_CAP = 120  # CPU seconds one run may use (cfg["wall_cap"] overrides); the wall-clock backstop is 5x that


def _arm_watchdog(cpu_cap: float) -> None:
    """A run is cut off by the CPU time IT used, so that a machine shared with other jobs cannot turn a slow run into a
    harness error; a wall-clock backstop (5x) still ends a run that hangs without using CPU."""
    import signal

    def on_cpu(_signum, _frame):
        faulthandler.dump_traceback()
        sys.stderr.write(f"[dsim] run exceeded its CPU budget of {cpu_cap} s\n")
        sys.stderr.flush()
        os._exit(4)

    try:
        signal.signal(signal.SIGPROF, on_cpu)
        signal.setitimer(signal.ITIMER_PROF, float(cpu_cap))
    except (ValueError, OSError):
        pass  # not in the main thread
    faulthandler.dump_traceback_later(max(600.0, 5.0 * float(cpu_cap)), exit=True)


def _disarm_watchdog() -> None:
    import signal

    try:
        signal.setitimer(signal.ITIMER_PROF, 0)
    except (ValueError, OSError):
        pass
    faulthandler.cancel_dump_traceback_later()

PROFILE_MODULES = {
    "C01": "dsim.profiles.valuesp",
    "C02": "dsim.profiles.resave",
    "C03": "dsim.profiles.grid",
    "C06": "dsim.profiles.layout",
    "C07": "dsim.profiles.package",
    "C11": "dsim.profiles.addressing",
    "C12": "dsim.profiles.merge",
    "C15": "dsim.profiles.look",
    "C16": "dsim.profiles.geometry",
    "C17": "dsim.profiles.damage",
    "C19": "dsim.profiles.names",
}


def profile_for(prop: str):
    return importlib.import_module(PROFILE_MODULES[prop])


def run_seed_for(base: int, prop: str, idx: int) -> int:
    h = hashlib.sha256(f"{base}:{prop}:{idx}".encode()).digest()
    return int.from_bytes(h[:6], "big")


def with_decoy(prof, run_seed: int, tier: str, cfg: dict, ops: list):
    """
    In a quarter of the runs of profiles that work on one document, a second document of the same kind is
    opened and edited FIRST and stays open (and under the continuous invariant) while the generated history
    runs on the other one, and its own history continues in the middle of and after the other's: whatever the library keeps per process instead of per document - a class
    attribute, a module-level memo, a cache keyed by table id (ids repeat across documents built from the
    same template) - then shows up as one document's edits in the other. The decoy history is the prefix of
    another history of the same profile; ops are total, so any prefix of any history is a valid history.
    """
    share = getattr(prof, "DECOY", 0)
    if not share:
        return cfg, ops
    from dsim.world import substream

    rng = substream(run_seed, "decoy")
    if rng.random() >= share:
        return cfg, ops
    seed2 = int.from_bytes(hashlib.sha256(f"decoy:{run_seed}".encode()).digest()[:6], "big")
    cfg2, ops2 = prof.gen(seed2, tier, None)

    def public(c):
        return {k: v for k, v in c.items() if not k.startswith("_")}

    if public(cfg2) != public(cfg):
        return cfg, ops  # a different stratum (other aspects / flags): its ops are not meant for this configuration
    usable = [dict(o) for o in ops2 if o.get("op") not in ("drop",) and not o.get("fault")]
    k1 = rng.randint(4, 14)
    k2 = k1 + rng.randint(0, 6)
    k3 = k2 + rng.randint(0, 6)
    pre, mid, suf = usable[:k1], usable[k1:k2], usable[k2:k3]
    if not any(o.get("op") in ("new_doc", "open_fixture") for o in pre[:1]):
        return cfg, ops
    # the decoy's history continues in the middle of and after the other document's: two documents whose edits interleave
    main = []
    for o in ops:
        o = dict(o)
        if "d" in o or o.get("op") in ("restart",):
            o["d"] = o.get("d", 0) + 1
        main.append(o)
    cut = rng.randint(1, max(1, len(main)))
    out = []
    for o in pre + main[:cut]:
        out.append(o)
    for part, tail in ((mid, main[cut:]), (suf, [])):
        out.extend(part)
        out.extend(tail)
    for o in pre + mid + suf:
        o["d"] = 0
    for i, o in enumerate(out):
        o["id"] = i
    cfg = dict(cfg)
    cfg["decoy_ops"] = [len(pre), len(mid), len(suf), cut]
    return cfg, out


def run_one(prop: str, run_seed: int, tier: str, ops=None, cfg=None, want_log=False, keep_ops=False, idx=None) -> dict:
    """Execute one simulated run. Pure function of (prop, run_seed, tier) or of (run_seed, cfg, ops)."""
    from dsim.sim import Sim, Violation
    from dsim.world import HarnessError, World

    prof = profile_for(prop)
    t0 = time.time()
    generated = ops is None
    if generated:
        cfg, ops = prof.gen(run_seed, tier, idx)
        cfg, ops = with_decoy(prof, run_seed, tier, cfg, ops)
    _arm_watchdog((cfg or {}).get("wall_cap", RUN_WALL_CAP))
    world = World(run_seed)
    res = {"seed": run_seed, "prop": prop, "nops": len(ops), "violation": None, "error": None}
    sim = None
    try:
        world.install()
        sim = Sim(world, cfg)
        prof.setup(sim)
        with warnings.catch_warnings():
            warnings.simplefilter("ignore")
            try:
                sim.run(ops)
            except Violation as v:
                res["violation"] = {"property": v.prop, "check_id": v.check_id, "key": v.key, "detail": v.detail[:3000], "step": v.step}
    except HarnessError as e:
        res["error"] = "HarnessError: " + "".join(traceback.format_exception(type(e), e, e.__traceback__))
    except Exception as e:  # noqa: BLE001
        res["error"] = "harness exception: " + "".join(traceback.format_exception(type(e), e, e.__traceback__))
    finally:
        _disarm_watchdog()
        world.destroy()
        gc.collect()
    if sim is not None:
        res["digest"] = sim.digest()
        res["stats"] = sim.stats
        res["abstract_states"] = sorted(sim.abstract_states)
        res["steps_done"] = len([x for x in sim.log if isinstance(x[0], int) and len(x) == 3])
        if want_log:
            res["log"] = sim.log
        try:
            res["nontrivial"] = bool(prof.nontrivial(res))
        except Exception:  # noqa: BLE001
            res["nontrivial"] = False
    res["wstats"] = world.stats
    res["wall"] = time.time() - t0
    if keep_ops or res["violation"] or res["error"]:
        res["ops"] = ops
        res["cfg"] = cfg
    return res


def run_isolated(prop: str, run_seed: int, tier: str, **kw) -> dict:
    """
    run_one in a process of its own, forked from a parent that has imported the library but never
    executed it: whatever process-global state the library (or a dependency) keeps - class-level
    memos, module caches, decimal/warnings contexts - starts every run pristine, so a run is a pure
    function of its seed and replays in a fresh interpreter. State leaking from one document to the
    next is explored INSIDE runs (several documents per run), never between them.
    """
    if os.environ.get("VERIF_NO_ISOLATION"):
        return run_one(prop, run_seed, tier, **kw)
    rfd, wfd = os.pipe()
    sys.stdout.flush()
    sys.stderr.flush()
    pid = os.fork()
    if pid == 0:
        code = 0
        try:
            os.close(rfd)
            data = pickle.dumps(run_one(prop, run_seed, tier, **kw), protocol=pickle.HIGHEST_PROTOCOL)
            with os.fdopen(wfd, "wb") as fh:
                fh.write(data)
        except BaseException:  # noqa: BLE001
            code = 3
            try:
                traceback.print_exc()
            except Exception:  # noqa: BLE001
                pass
        finally:
            os._exit(code)
    os.close(wfd)
    chunks = []
    with os.fdopen(rfd, "rb") as fh:
        while True:
            b = fh.read(1 << 20)
            if not b:
                break
            chunks.append(b)
    _, status = os.waitpid(pid, 0)
    if chunks and status == 0:
        return pickle.loads(b"".join(chunks))  # noqa: S301
    res = {"seed": run_seed, "prop": prop, "nops": len(kw.get("ops") or ()), "violation": None,
           "error": f"run process ended without a result (wait status {status}: watchdog timeout or crash; traceback on stderr)",
           "ops": kw.get("ops"), "cfg": kw.get("cfg")}
    if kw.get("ops") is None:
        try:
            res["cfg"], res["ops"] = profile_for(prop).gen(run_seed, tier, kw.get("idx"))
            res["nops"] = len(res["ops"])
        except Exception:  # noqa: BLE001
            pass
    return res


def _worker_chunk(prop, base_seed, tier, idxs):
    out = []
    for i in idxs:
        r = run_isolated(prop, run_seed_for(base_seed, prop, i), tier, keep_ops=(i < 3), idx=i)
        r["idx"] = i
        out.append(r)
    return out


def _worker_replay(prop, seed, cfg, ops):
    return run_isolated(prop, seed, "quick", ops=ops, cfg=cfg)


# ---------------------------------------------------------------------------------------------------
# minimisation


def shrink(pool, prop: str, seed: int, cfg: dict, ops: list, ident: tuple, budget_s: float = 120.0):
    """ddmin over the op list, then per-op argument simplification; same (check_id, key) required."""
    t0 = time.time()
    tests = 0

    def fails_many(cands):
        nonlocal tests
        futs = [pool.submit(_worker_replay, prop, seed, cfg, c) for c in cands]
        tests += len(cands)
        out = []
        for f in futs:
            r = f.result()
            v = r.get("violation")
            out.append(bool(v) and (v["check_id"], v["key"]) == ident)
        return out

    cur = list(ops)
    # ddmin and argument simplification alternate: a simpler argument (a write at row 0 instead of 300)
    # often makes further ops removable
    for _round in range(3):
        before = json.dumps(cur, sort_keys=True, default=str)
        n = 2
        while len(cur) >= 2 and time.time() - t0 < budget_s:
            chunk = max(1, len(cur) // n)
            cands = []
            for start in range(0, len(cur), chunk):
                cands.append(cur[:start] + cur[start + chunk :])
            cands = [c for c in cands if c]
            res = fails_many(cands)
            hit = next((i for i, ok in enumerate(res) if ok), None)
            if hit is not None:
                cur = cands[hit]
                n = max(n - 1, 2)
            else:
                if chunk == 1:
                    break
                n = min(len(cur), n * 2)
        # argument simplification
        changed = True
        while changed and time.time() - t0 < budget_s:
            changed = False
            cands, where = [], []
            for i, o in enumerate(cur):
                for simpler in simplify_op(o):
                    c = list(cur)
                    c[i] = simpler
                    cands.append(c)
                    where.append(i)
            if not cands:
                break
            res = fails_many(cands)
            done = set()
            for c, i, ok in zip(cands, where, res):
                if ok and i not in done:
                    # apply independently found simplifications one op at a time, re-verified next round
                    cur = list(cur)
                    cur[i] = c[i]
                    done.add(i)
                    changed = True
            if changed:
                if not fails_many([cur])[0]:
                    # combination does not reproduce; fall back to applying only the first
                    first = next(i for i, ok in enumerate(res) if ok)
                    cur = cands[first]
        if json.dumps(cur, sort_keys=True, default=str) == before or time.time() - t0 >= budget_s:
            break
    return cur, tests


def simplify_op(o: dict):
    """Yield simpler variants of one op (each changes one argument)."""
    def var(**kw):
        n = dict(o)
        n.update(kw)
        return n

    for k in ("n",):
        if isinstance(o.get(k), int) and o[k] > 1:
            yield var(**{k: 1})
    for k in ("r", "c", "at", "s", "t", "d"):
        if isinstance(o.get(k), int) and o[k] > 0:
            yield var(**{k: 0})
            if o[k] > 1:
                yield var(**{k: o[k] // 2})
    if o.get("op") in ("new_doc", "add_table", "add_sheet"):
        for k, small in (("rows", 2), ("cols", 2)):
            if isinstance(o.get(k), int) and o[k] > small:
                yield var(**{k: small})
    if "dv" in o and o["dv"] is not None:
        yield {k: v for k, v in o.items() if k != "dv"}
    if "v" in o and isinstance(o["v"], dict):
        k = o["v"]["k"]
        simple = {"s": "a", "i": 1, "f": "1.5", "b": True}.get(k)
        if simple is not None and o["v"]["v"] != simple:
            yield var(v={"k": k, "v": simple})
    if o.get("nota") not in (None, "rc"):
        yield var(nota="rc")
    if o.get("fault"):
        f = o["fault"]
        if f.get("cls") != "zero":
            nf = dict(f)
            nf["cls"] = "zero"
            yield var(fault=nf)
        if f.get("lost"):
            nf = dict(f)
            nf["lost"] = 0
            yield var(fault=nf)
    # layout rewrites / damage specs: fewer specs, fewer kinds per spec
    if isinstance(o.get("specs"), list):
        if len(o["specs"]) > 1:
            for sp in o["specs"]:
                yield var(specs=[sp])
        for i, sp in enumerate(o["specs"]):
            if isinstance(sp.get("kinds"), list) and len(sp["kinds"]) > 1:
                for kk in sp["kinds"]:
                    nsp = dict(sp)
                    nsp["kinds"] = [x for x in sp["kinds"] if x != kk]
                    yield var(specs=o["specs"][:i] + [nsp] + o["specs"][i + 1:])
    if isinstance(o.get("spec"), dict) and isinstance(o["spec"].get("kinds"), list) and len(o["spec"]["kinds"]) > 1:
        for kk in o["spec"]["kinds"]:
            nsp = dict(o["spec"])
            nsp["kinds"] = [x for x in o["spec"]["kinds"] if x != kk]
            yield var(spec=nsp)
    for k in ("explicit", "defaults", "x", "y"):
        if k in o:
            yield {kk: vv for kk, vv in o.items() if kk != k}


# ---------------------------------------------------------------------------------------------------
# known findings


def load_known():
    p = os.path.join(VERIF, "known_findings.json")
    if not os.path.exists(p):
        return []
    with open(p) as fh:
        return json.load(fh).get("findings", [])


def known_index(prop: str):
    idx = {}
    for f in load_known():
        if f.get("status") == "known":
            idx[(f["check_id"], f["key"] if isinstance(f["key"], str) else json.dumps(f["key"], sort_keys=True))] = f
    return idx


# ---------------------------------------------------------------------------------------------------
# the batch


TIERS = {
    # a time budget, but never fewer than min_runs runs (a loaded machine gets more time, up to hard_cap_s): two seeded
    # changes were missed only when a quick batch got a third of its usual runs because other jobs shared the cores
    "quick": {"budget_s": 50, "max_runs": 100_000, "chunk": 2, "min_runs": 400, "hard_cap_s": 200},
    "thorough": {"budget_s": 900, "max_runs": 5_000_000, "chunk": 8, "min_runs": 4000, "hard_cap_s": 2700},
}


def merge_counts(dst: dict, src: dict) -> None:
    for k, v in src.items():
        if isinstance(v, dict):
            merge_counts(dst.setdefault(k, {}), v)
        elif isinstance(v, (int, float)):
            dst[k] = dst.get(k, 0) + v


def _sweep_stale_roots(max_age_s: int = 3600) -> None:
    """Simulated roots of runs that the watchdog ended are left behind on tmpfs: remove the old ones."""
    import shutil

    try:
        now = time.time()
        for name in os.listdir("/dev/shm"):
            if name.startswith("dsim-"):
                pth = os.path.join("/dev/shm", name)
                try:
                    if now - os.lstat(pth).st_mtime > max_age_s:
                        shutil.rmtree(pth, ignore_errors=True)
                except OSError:
                    pass
    except OSError:
        pass


OPT_CHILD = bool(os.environ.get("VERIF_OPT_CHILD"))  # this process is the "python -O" part of a check
OPT_INDEX_OFFSET = 1_000_000


def batch(prop: str, tier: str, base_seed: int, budget_s=None, max_runs=None, workers=None) -> int:
    prof = profile_for(prop)
    tcfg = dict(TIERS[tier])
    if tier == "quick":
        # about 0.7 of what 50 s buy on the idle 16-core machine, per property
        tcfg["min_runs"] = {"C01": 390, "C02": 510, "C03": 450, "C06": 700, "C07": 440, "C11": 820, "C12": 880, "C15": 600, "C16": 440, "C17": 1350, "C19": 300}.get(prop, 400)
    if budget_s is not None:
        tcfg["budget_s"] = budget_s
        tcfg["min_runs"] = 0  # an explicit budget is taken literally
    if max_runs is not None:
        tcfg["max_runs"] = max_runs
    workers = workers or int(os.environ.get("VERIF_WORKERS", "16"))
    t0 = time.time()
    print(f"[dsim] property={prop} tier={tier} VERIF_SEED={base_seed} workers={workers} budget={tcfg['budget_s']}s"
          + (" (python -O part: assert statements stripped)" if OPT_CHILD else ""), flush=True)

    import numbers_parser  # noqa: F401  (import once, before forking)

    _sweep_stale_roots()
    known = known_index(prop)
    agg = {"stats": {}, "wstats": {}}
    digests = set()
    abstract_states = set()
    nontrivial_digests = set()
    samples = []
    evaluations = 0
    ops_total = 0
    steps_total = 0
    errors = []
    viols = {}  # ident -> first result
    known_seen = {}
    fault_runs = 0
    progress_after_fault = 0

    ctx = get_context("fork")
    pool = ProcessPoolExecutor(max_workers=workers, mp_context=ctx)
    try:
        next_idx = 0
        pending = set()
        chunk = tcfg["chunk"]

        def submit():
            nonlocal next_idx
            idxs = list(range(next_idx, min(next_idx + chunk, tcfg["max_runs"])))
            if not idxs:
                return False
            next_idx += len(idxs)
            if OPT_CHILD:
                idxs = [i + OPT_INDEX_OFFSET for i in idxs]  # other runs than the main part's
            pending.add(pool.submit(_worker_chunk, prop, base_seed, tier, idxs))
            return True

        for _ in range(workers + 6):
            if not submit():
                break
        while pending:
            done = next(as_completed(pending))
            pending.discard(done)
            for r in done.result():
                evaluations += 1
                ops_total += r["nops"]
                steps_total += r.get("steps_done", 0)
                if r.get("error"):
                    errors.append(r)
                    continue
                merge_counts(agg["stats"], r.get("stats", {}))
                merge_counts(agg["wstats"], r.get("wstats", {}))
                abstract_states.update(r.get("abstract_states", ()))
                dg = r.get("digest")
                if dg not in digests:
                    digests.add(dg)
                    if r.get("nontrivial"):
                        nontrivial_digests.add(dg)
                ws = r.get("wstats", {})
                if ws.get("write_error_fired", 0) + ws.get("crash_fired", 0) > 0:
                    fault_runs += 1
                    if r.get("stats", {}).get("probes", {}).get("recovered_after_fault", 0) > 0:
                        progress_after_fault += 1
                if "ops" in r and not r.get("violation") and len(samples) < 3:
                    samples.append({"run_seed": r["seed"], "ops": compact_ops(r["ops"])})
                v = r.get("violation")
                if v:
                    ident = (v["check_id"], v["key"])
                    if ident in known:
                        known_seen[ident] = known_seen.get(ident, 0) + 1
                    elif ident not in viols:
                        viols[ident] = r
            el = time.time() - t0
            more = el < tcfg["budget_s"] or (evaluations + len(pending) * chunk < tcfg.get("min_runs", 0) and el < tcfg.get("hard_cap_s", 0))
            if more and not errors and len(viols) < 4:
                submit()
        wall_explore = time.time() - t0

        if errors:
            e = errors[0]
            print(f"HARNESS-ERROR property={prop} run_seed={e['seed']}\n{e['error']}", flush=True)
            dump = os.path.join(VERIF, "replays", prop, f"harness-error-{e['seed']}.json")
            os.makedirs(os.path.dirname(dump), exist_ok=True)
            with open(dump, "w") as fh:
                json.dump({"property": prop, "seed": e["seed"], "cfg": strip_cfg(e.get("cfg")), "ops": e.get("ops"), "error": e["error"]}, fh, indent=1)
            print(f"[dsim] harness error dumped to {dump}", flush=True)
            return 2

        # known findings: replay each witness, report it
        for ident, f in known.items():
            n = known_seen.get(ident, 0)
            if f.get("property") != prop and n == 0:
                continue  # another property's finding, not met here
            if OPT_CHILD:
                continue  # the main part of the check reports the known findings
            ok = replay_known(f.get("property", prop), f)
            if ok:
                print(f"KNOWN-FINDING: property={f.get('property', prop)} {f['what']} [{f['check_id']} {f['key']}] (witness reproduces; met {n}x in this batch)", flush=True)
            else:
                print(f"[dsim] note: known finding {f['check_id']} {f['key']} no longer reproduces from its witness", flush=True)

        # minimise and report new violations
        exit_code = 0
        unreproducible = 0
        reported = []
        # minimise the first few distinct violations; further ones are listed without minimisation
        extra = list(viols.items())[4:]
        for ident, r in extra:
            print(f"[dsim] further distinct violation (not minimised): check={ident[0]} key={ident[1]} run_seed={r['seed']}", flush=True)
        for ident, r in list(viols.items())[:4]:
            v = r["violation"]
            small, tests = shrink(pool, prop, r["seed"], r["cfg"], r["ops"], ident, budget_s=90 if tier == "quick" else 240)
            rr = _in_pool(pool, _worker_replay, prop, r["seed"], r["cfg"], small)
            vv = rr.get("violation") or v
            path = write_replay(prop, r["seed"], r["cfg"], small, vv, rr.get("digest"), len(r["ops"]), tests)
            ok, msg = verify_replay(prop, path)
            if not ok:
                # the minimised history does not fail in a fresh process: fall back to the history as it was generated
                path0 = write_replay(prop, r["seed"], r["cfg"], r["ops"], v, r.get("digest"), len(r["ops"]), 0)
                ok0, msg0 = verify_replay(prop, path0)
                if ok0:
                    print(f"[dsim] note: the minimised history did not reproduce in a fresh process; reporting the unminimised one", flush=True)
                    path, small, vv = path0, r["ops"], v
                else:
                    print(f"[dsim] UNREPRODUCIBLE property={prop} a violation was observed ({v['check_id']} {v['key']}) but neither the minimised nor the "
                          f"original history reproduces it in a fresh process (it depends on state the simulator does not control, e.g. memory "
                          f"addresses): {msg[:300]}", flush=True)
                    unreproducible += 1
                    continue
            print(f"VIOLATION property={vv['property'] if vv['property'] == prop else prop} replay={path}", flush=True)
            print(f"  check={vv['check_id']} key={vv['key']} ops={len(small)} (from {len(r['ops'])}, {tests} shrink runs)\n  {vv['detail'][:600]}", flush=True)
            reported.append({"check_id": vv["check_id"], "key": vv["key"], "replay": path})
            exit_code = 1
        if unreproducible and exit_code == 0:
            print(f"HARNESS-ERROR property={prop} {unreproducible} violation(s) observed, none reproducible from a replay file", flush=True)
            return 2
    finally:
        pool.shutdown(wait=False, cancel_futures=True)

    wall = time.time() - t0
    st = agg["stats"]
    ev = {
        "property_id": prop,
        "tier": tier,
        "seed": base_seed,
        "level": getattr(prof, "LEVEL", "exploration"),
        "coverage": {
            "evaluations": evaluations,
            "distinct_nontrivial": len(nontrivial_digests),
            "distinct_digests": len(digests),
            "rule": prof.RULE,
            "samples": samples,
            "runs_per_hour": int(evaluations / max(wall_explore, 1e-6) * 3600),
            "ops_total": ops_total,
            "steps_simulated": steps_total,
            "ops_by_kind": st.get("ops", {}),
            "distinct_abstract_states": len(abstract_states),
            "abstract_state_measure": "hash of (profile, op kind, outcome, open documents, per table: buckets of rows/cols/non-empty cells/merges/strokes/styled cells, header counts, saved/failed-save flags, status of every slot) after each op",
            "op_bigram_coverage": {"distinct": len(st.get("bigrams", {})), "possible": (len(st.get("ops", {})) + 1) * max(1, len(st.get("ops", {}))),
                                   "rarest": sorted(st.get("bigrams", {}).items(), key=lambda kv: kv[1])[:8]},
            "outcomes": st.get("outcomes", {}),
            "invariant_evaluations": st.get("checks", 0),
            "cells_compared": st.get("cells_compared", 0),
            "saves_ok": st.get("saves_ok", 0),
            "restarts_ok": st.get("restarts_ok", 0),
            "faults_fired_by_kind": {
                "write_error": agg["wstats"].get("write_error_fired", 0),
                "crash": agg["wstats"].get("crash_fired", 0),
                "clock_jump_back": agg["wstats"].get("clock_jumps_back", 0),
                "listdir_permuted": agg["wstats"].get("listdir_permuted", 0),
                **{k: v for k, v in st.get("faults", {}).items()},
            },
            "runs_with_fault": fault_runs,
            "runs_with_progress_after_last_fault": progress_after_fault,
            "restart_after_torn": st.get("restart_after_torn", 0),
            "torn_open_outcomes": {"library_error": st.get("torn_open_liberr", 0), "opened": st.get("torn_opened", 0)},
            "simulated_time": "no timers in this system: simulated time is the event sequence (steps_simulated); the clock seam only feeds zip timestamps",
            "probes": st.get("probes", {}),
            "environment": agg["wstats"],
            "components": {
                "real": ["numbers_parser (all of /repo/src)", "zipfile", "plistlib", "snappy", "protobuf"],
                "stub": ["file objects opened for writing under the simulated root (thin wrapper over tmpfs files)", "directory order", "clock for zip timestamps", "uuid source"],
                "process_model": "each run executes in a process of its own, forked from a worker that has imported numbers_parser but never executed it; "
                                 "several documents are open inside one run, nothing survives from one run to the next",
            },
            "known_findings_seen": {f"{k[0]} {k[1]}": n for k, n in known_seen.items()},
            "violations_reported": reported,
        },
        "assumptions": getattr(prof, "ASSUMPTIONS", []) + [
            "a clean batch is evidence, not proof: the space is sampled by seed, not enumerated",
            "trusted base: CPython, zipfile, snappy, protobuf, generated schema modules, tmpfs",
        ],
        "wall_s": round(wall, 2),
        "violations": len(reported),
    }
    extra = getattr(prof, "evidence_extra", None)
    if extra:
        ev["coverage"].update(extra(agg))
    evdir = os.environ.get("VERIF_EVIDENCE_DIR") or os.path.join(VERIF, "evidence")
    os.makedirs(evdir, exist_ok=True)
    with open(os.path.join(evdir, f"{prop}.json"), "w") as fh:
        json.dump(ev, fh, indent=1, default=str)
    print(f"[dsim] {prop}: {evaluations} runs, {len(digests)} distinct, {len(nontrivial_digests)} non-trivial, "
          f"{ops_total} ops, faults fired: write_error={agg['wstats'].get('write_error_fired', 0)} crash={agg['wstats'].get('crash_fired', 0)}; "
          f"{len(reported)} violation(s); {wall:.1f}s", flush=True)
    return exit_code


def _in_pool(pool, fn, *args):
    return pool.submit(fn, *args).result()


def strip_cfg(cfg):
    if cfg is None:
        return None
    return {k: v for k, v in cfg.items() if not callable(v) and not (isinstance(v, list) and v and callable(v[0]))}


def compact_ops(ops):
    out = []
    for o in ops[:60]:
        o = dict(o)
        if isinstance(o.get("v"), dict) and isinstance(o["v"].get("v"), str) and len(o["v"]["v"]) > 40:
            o["v"] = {"k": o["v"]["k"], "v": o["v"]["v"][:37] + "...", "len": len(o["v"]["v"])}
        out.append(o)
    return out


def write_replay(prop, seed, cfg, ops, violation, digest, orig_len, shrink_tests) -> str:
    d = os.path.join(VERIF, "replays", prop)
    os.makedirs(d, exist_ok=True)
    path = os.path.join(d, f"{seed}.json")
    with open(path, "w") as fh:
        json.dump(
            {
                "property": prop,
                "seed": seed,
                "cfg": strip_cfg(cfg),
                "ops": ops,
                "violation": {**violation, "digest": digest},
                "minimised_from_ops": orig_len,
                "shrink_runs": shrink_tests,
                "how_to_replay": f"cd /verif && ./check {prop} --replay {path}",
                "python_optimize": int(sys.flags.optimize),
            },
            fh,
            indent=1,
        )
    return path


def replay_file(prop: str, path: str) -> dict:
    with open(path) as fh:
        rp = json.load(fh)
    import numbers_parser  # noqa: F401

    return run_one(rp.get("property", prop), rp["seed"], "quick", ops=rp["ops"], cfg=rp["cfg"]), rp


def verify_replay(prop: str, path: str):
    """Fresh process: the replay file must fail the same way."""
    env = dict(os.environ)
    env["PYTHONHASHSEED"] = "0"
    p = subprocess.run([PY, *(["-O"] if sys.flags.optimize else []), os.path.join(VERIF, "check"), prop, "--replay", path, "--json"],
                       capture_output=True, text=True, env=env, timeout=600)
    try:
        out = json.loads(p.stdout.strip().splitlines()[-1])
    except Exception:  # noqa: BLE001
        return False, f"no JSON from replay (exit {p.returncode}): {p.stdout[-500:]} {p.stderr[-500:]}"
    return bool(out.get("same")), json.dumps(out)


def replay_known(prop: str, f: dict) -> bool:
    w = f.get("witness")
    if not w:
        return False
    path = w if os.path.isabs(w) else os.path.join(VERIF, w)
    if not os.path.exists(path):
        return False
    with open(path) as fh:
        rp = json.load(fh)
    res = run_isolated(rp.get("property", prop), rp["seed"], "quick", ops=rp["ops"], cfg=rp["cfg"])
    v = res.get("violation")
    key = f["key"] if isinstance(f["key"], str) else json.dumps(f["key"], sort_keys=True)
    return bool(v) and v["check_id"] == f["check_id"] and v["key"] == key


def _digest_chunk(prop, base_seed, tier, idxs):
    out = {}
    for i in idxs:
        r = run_one(prop, run_seed_for(base_seed, prop, i), tier, idx=i)
        v = r.get("violation")
        out[i] = [r.get("digest"), (v or {}).get("check_id"), bool(r.get("error"))]
    return out


def digests_mode(prop, args) -> int:
    parts = args.digests.split(":")
    idxs = list(range(int(parts[0]), int(parts[1])))
    if len(parts) > 2 and parts[2] == "reverse":
        idxs.reverse()
    import numbers_parser  # noqa: F401

    workers = args.workers or 16
    out = {}
    with ProcessPoolExecutor(max_workers=workers, mp_context=get_context("fork")) as pool:
        per = max(1, len(idxs) // (workers * 2) or 1)
        futs = [pool.submit(_digest_chunk, prop, args.seed, args.tier, idxs[k : k + per]) for k in range(0, len(idxs), per)]
        for f in futs:
            out.update(f.result())
    print("DIGESTS " + json.dumps({str(k): v for k, v in sorted(out.items())}))
    return 0


def main(argv=None) -> int:
    import argparse

    ap = argparse.ArgumentParser()
    ap.add_argument("property")
    ap.add_argument("--tier", default=os.environ.get("VERIF_TIER", "quick"))
    ap.add_argument("--replay")
    ap.add_argument("--json", action="store_true")
    ap.add_argument("--seed", type=int, default=int(os.environ.get("VERIF_SEED", "0")))
    ap.add_argument("--budget", type=float)
    ap.add_argument("--runs", type=int)
    ap.add_argument("--workers", type=int)
    ap.add_argument("--one", type=int, help="run a single run index verbosely")
    ap.add_argument("--digests", help="START:END[:reverse] print the event-log digest of each run index (determinism self-test)")
    args = ap.parse_args(argv)
    prop = args.property
    if args.tier not in TIERS:
        args.tier = "quick"
    if args.replay:
        with open(args.replay) as fh:
            need_opt = bool(json.load(fh).get("python_optimize"))
        if need_opt and not sys.flags.optimize:
            # found by the "python -O" part of a check: replay under the same interpreter mode
            os.execv(PY, [PY, "-O", os.path.join(VERIF, "check"), *sys.argv[1:]])
        res, rp = replay_file(prop, args.replay)
        v = res.get("violation")
        exp = rp.get("violation") or {}
        same = bool(v) and v["check_id"] == exp.get("check_id") and v["key"] == exp.get("key") and (exp.get("digest") in (None, res.get("digest")))
        if args.json:
            print(json.dumps({"same": same, "violation": v, "digest": res.get("digest"), "expected_digest": exp.get("digest"), "error": res.get("error")}))
        else:
            if res.get("error"):
                print(res["error"])
                return 2
            if v:
                print(f"VIOLATION property={prop} replay={args.replay}")
                print(f"  check={v['check_id']} key={v['key']} step={v['step']}\n  {v['detail']}")
                print(f"  digest={res.get('digest')} expected={exp.get('digest')} same={same}")
            else:
                print("replay did not violate")
        return 1 if v else 0
    if prop == "selftest":
        from dsim.selftest import main as st_main

        return st_main(args)
    if args.digests:
        return digests_mode(prop, args)
    if args.one is not None:
        seed = run_seed_for(args.seed, prop, args.one)
        import numbers_parser  # noqa: F401

        r = run_one(prop, seed, args.tier, want_log=True, keep_ops=True, idx=args.one)
        print(json.dumps({k: v for k, v in r.items() if k not in ("cfg",)}, indent=1, default=str)[:20000])
        return 1 if r.get("violation") else (2 if r.get("error") else 0)
    rc = batch(prop, args.tier, args.seed, args.budget, args.runs, args.workers)
    if rc in (0, 1) and not sys.flags.optimize and not OPT_CHILD and not os.environ.get("VERIF_NO_OPT_PART") and args.runs is None:
        rc = max(rc, optimized_part(prop, args))
    return rc


def optimized_part(prop: str, args) -> int:
    """A fifth of the budget is spent again under "python -O": assert statements are compiled out there, an ambient
    interpreter setting like the time zone or the decimal context - but fixed per process, so it needs a process
    of its own. Other run indexes than the main part; its violations are reported (and replayed) under -O."""
    import tempfile

    main_budget = args.budget if args.budget is not None else TIERS[args.tier]["budget_s"]
    budget = max(8.0, 0.2 * float(main_budget))
    evdir = os.environ.get("VERIF_EVIDENCE_DIR") or os.path.join(VERIF, "evidence")
    tmp = tempfile.mkdtemp(prefix="dsim-optpart-", dir="/dev/shm" if os.path.isdir("/dev/shm") else None)
    env = dict(os.environ)
    env.update({"VERIF_OPT_CHILD": "1", "VERIF_EVIDENCE_DIR": tmp, "PYTHONHASHSEED": os.environ.get("PYTHONHASHSEED", "0")})
    cmd = [PY, "-O", os.path.join(VERIF, "check"), prop, "--tier", args.tier, "--seed", str(args.seed), "--budget", str(budget)]
    if args.workers:
        cmd += ["--workers", str(args.workers)]
    try:
        rc = subprocess.run(cmd, env=env, timeout=max(900.0, 6 * budget)).returncode
    except subprocess.TimeoutExpired:
        print(f"HARNESS-ERROR property={prop} the python -O part did not finish", flush=True)
        rc = 2
    summary = {"exit_code": rc}
    try:
        with open(os.path.join(tmp, f"{prop}.json")) as fh:
            ev2 = json.load(fh)
        c2 = ev2["coverage"]
        summary.update({"evaluations": c2["evaluations"], "distinct_nontrivial": c2["distinct_nontrivial"], "ops_total": c2.get("ops_total"),
                        "violations_reported": c2.get("violations_reported"), "wall_s": ev2.get("wall_s"), "run_index_offset": OPT_INDEX_OFFSET})
        main_ev = os.path.join(evdir, f"{prop}.json")
        with open(main_ev) as fh:
            ev = json.load(fh)
        ev["coverage"]["python_optimized_part"] = summary
        ev["violations"] = int(ev.get("violations", 0)) + int(ev2.get("violations", 0))
        with open(main_ev, "w") as fh:
            json.dump(ev, fh, indent=1, default=str)
    except Exception as e:  # noqa: BLE001
        print(f"[dsim] note: evidence of the python -O part could not be merged: {type(e).__name__}: {e}", flush=True)
    finally:
        import shutil

        shutil.rmtree(tmp, ignore_errors=True)
    return rc if rc in (0, 1) else 2
