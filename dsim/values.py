"""Cell value domains (C01), JSON encoding of values, and typed equality."""

from __future__ import annotations

from datetime import datetime, timedelta
from decimal import Decimal

# ---------------------------------------------------------------------------------------------
# JSON codec: every operation argument must be JSON-able so a replay file is self-contained.


def enc(v):
    if v is None:
        return None
    if isinstance(v, bool):
        return {"k": "b", "v": v}
    if isinstance(v, int):
        return {"k": "i", "v": v}
    if isinstance(v, float):
        return {"k": "f", "v": repr(v)}
    if isinstance(v, str):
        return {"k": "s", "v": v}
    if isinstance(v, datetime):
        return {"k": "dt", "v": [v.year, v.month, v.day, v.hour, v.minute, v.second, v.microsecond]}
    if isinstance(v, timedelta):
        return {"k": "td", "v": [v.days, v.seconds, v.microseconds]}
    msg = f"cannot encode {type(v)}"
    raise TypeError(msg)


def dec(e):
    if e is None:
        return None
    k, v = e["k"], e["v"]
    if k == "b":
        return bool(v)
    if k == "i":
        return int(v)
    if k == "f":
        return float(v)
    if k == "s":
        return v
    if k == "dt":
        return datetime(*v)
    if k == "td":
        return timedelta(days=v[0], seconds=v[1], microseconds=v[2])
    msg = f"cannot decode {e}"
    raise TypeError(msg)


CLASS_FOR = {
    type(None): "EmptyCell",
    str: "TextCell",
    bool: "BoolCell",
    int: "NumberCell",
    float: "NumberCell",
    datetime: "DateCell",
    timedelta: "DurationCell",
}


def kind_of(v) -> str:
    return CLASS_FOR[type(v)]


def typed_eq(expected, got) -> bool:
    """Exact, typed equality: True is not 1.0, 50.00000000000001 is not 50."""
    if expected is None:
        return got is None
    if isinstance(expected, bool):
        return isinstance(got, bool) and got is expected
    if isinstance(expected, (int, float)):
        return isinstance(got, (int, float)) and not isinstance(got, bool) and got == expected
    if isinstance(expected, str):
        return isinstance(got, str) and got == expected
    if isinstance(expected, datetime):
        return isinstance(got, datetime) and got == expected
    if isinstance(expected, timedelta):
        return isinstance(got, timedelta) and got == expected
    return expected == got


def short(v, n=40):
    r = repr(v)
    return r if len(r) <= n else r[: n - 3] + "..."


# ---------------------------------------------------------------------------------------------
# Generators.  ``rng`` is a random.Random; nothing else is consulted.

_ASTRAL = "\U0001F600\U0001F4A9\U00010348\U0001F1EC\U0001F1E7"
_TEXT_ATOMS = [
    "a", "B", "z", " ", "  ", "\n", "\t", ",", '"', "'", "=", "é", "ß", "Ω", "中", "文", "क",
    "0", "1", "nan", "inf", "-", ".", "​", " ", " ", "e", "E", "$", "%",
]


# different strings that a lossy key would identify: canonically equivalent forms (NFC/NFD, Angstrom/A-ring, Hangul
# syllable/jamo), case variants, surrounding blanks, ligature versus letters. Texts of one table share a lookup list.
_LOOKALIKE_TEXTS = ["caf\u00e9", "cafe\u0301", "\u212b", "\u00c5", "A\u030a", "\uac00", "\u1100\u1161", "Total", "total", "TOTAL", " Total", "Total ",
                    "\ufb01", "fi", "stra\u00dfe", "strasse", "\u0130", "i\u0307", "1", "1.0", "01", "x\ty", "x y", "x\ny"]


def gen_text(rng, long_ok=True) -> str:
    r = rng.random()
    if r < 0.08:
        return ""
    if r > 0.88:
        return rng.choice(_LOOKALIKE_TEXTS)
    if r < 0.16:
        return rng.choice(["A", "x", "Total", "Table 1", "TRUE", "1", "1.5", "0", "nan", "None"])
    if r < 0.22:
        return "".join(rng.choice(_ASTRAL) for _ in range(rng.randint(1, 6)))
    if r < 0.30:
        return "\n".join(gen_text(rng, False) for _ in range(rng.randint(2, 4)))
    if r < 0.33 and long_ok:
        n = rng.choice([255, 256, 257, 1000, 4096, 65535, 65536, 100_000])
        unit = rng.choice(["x", "ab", "é", "\U0001F600", "0123456789"])
        return (unit * (n // len(unit) + 1))[:n]
    if r < 0.40:
        # arbitrary scalar values from several planes (no surrogates)
        out = []
        for _ in range(rng.randint(1, 12)):
            cp = rng.choice([rng.randrange(0x20, 0x7F), rng.randrange(0xA0, 0x2000), rng.randrange(0x2000, 0xD7FF), rng.randrange(0xE000, 0xFFFD), rng.randrange(0x10000, 0x10FFFF)])
            out.append(chr(cp))
        return "".join(out)
    return "".join(rng.choice(_TEXT_ATOMS) for _ in range(rng.randint(1, 20)))


def gen_int(rng) -> int:
    r = rng.random()
    if r < 0.35:
        return rng.randint(-200, 200)
    if r < 0.6:
        return rng.randint(-100_000, 100_000)
    if r < 0.7:
        e = rng.randint(0, 14)
        return rng.choice([-1, 1]) * (10**e + rng.choice([-1, 0, 1]))
    if r < 0.8:
        return rng.choice([-1, 1]) * (2 ** rng.randint(0, 49) + rng.choice([-1, 0, 1]))
    return rng.randint(-(10**15) + 1, 10**15 - 1)


def float_from_digits(sign: int, digits: int, exp10: int) -> float:
    """The float nearest to sign * digits * 10**exp10 (digits has <= 15 significant digits)."""
    return float(Decimal(sign * digits).scaleb(exp10))


def sig15_ok(x: float) -> bool:
    """True if x is the float nearest to some decimal of <= 15 significant digits."""
    if x == 0.0:
        return True
    return float(f"{x:.14e}") == x


def gen_float(rng) -> float:
    r = rng.random()
    if r < 0.05:
        return 0.0
    sign = rng.choice([1, 1, -1])
    if r < 0.30:
        # prices: two decimals
        return float_from_digits(sign, rng.randint(0, 99_999), -2)
    if r < 0.45:
        nd = rng.randint(1, 6)
        return float_from_digits(sign, rng.randint(1, 10**nd - 1), -rng.randint(1, 6))
    if r < 0.60:
        nd = rng.randint(1, 15)
        return float_from_digits(sign, rng.randint(10 ** (nd - 1), 10**nd - 1), rng.randint(-20, 5))
    if r < 0.75:
        # exactly 15 significant digits, any magnitude within the documented range
        d = rng.randint(10**14, 10**15 - 1)
        e = rng.randint(-290 - 14, 290 - 14 - 1)
        x = float_from_digits(sign, d, e)
        if 1e-290 <= abs(x) <= 1e290:
            return x
        return float_from_digits(sign, d, -14)
    if r < 0.85:
        # powers of ten and their neighbours
        e = rng.randint(-290, 290)
        d = rng.choice([1, 1, 9, 99, 999999999999999, 5, 2, 25, 125])
        x = float_from_digits(sign, d, e - (len(str(d)) - 1))
        if 1e-290 <= abs(x) <= 1e290:
            return x
        return float(sign)
    nd = rng.randint(1, 15)
    d = rng.randint(10 ** (nd - 1), 10**nd - 1)
    e = rng.randint(-290, 290 - nd)
    x = float_from_digits(sign, d, e)
    if x != 0.0 and not (1e-290 <= abs(x) <= 1e290):
        return float_from_digits(sign, d, -nd)
    return x


def gen_datetime(rng) -> datetime:
    r = rng.random()
    if r < 0.5:
        # microseconds only within 1900..2100
        y = rng.randint(1900, 2100)
        us = rng.choice([0, 0, 1, 500_000, 999_999, rng.randrange(1_000_000)])
    else:
        y = rng.choice([1, 2, 100, 999, 1000, 1582, 1899, 1900, 1970, 2000, 2001, 2038, 2100, 2101, 9999, rng.randint(1, 9999)])
        us = 0
    mo = rng.randint(1, 12)
    d = rng.randint(1, 28) if rng.random() < 0.8 else rng.choice([29, 30, 31])
    while True:
        try:
            return datetime(y, mo, d, rng.randint(0, 23), rng.randint(0, 59), rng.randint(0, 59), us)
        except ValueError:
            d -= 1


def gen_timedelta(rng) -> timedelta:
    r = rng.random()
    lim_days = 36_500
    if r < 0.3:
        return timedelta(seconds=rng.randint(-86_400 * 3, 86_400 * 3))
    if r < 0.5:
        return timedelta(days=rng.randint(-lim_days, lim_days), seconds=rng.randint(0, 86_399), microseconds=rng.randrange(1_000_000))
    if r < 0.6:
        return timedelta(microseconds=rng.choice([-1, 1, 999, 1000, 999_999, -999_999]))
    if r < 0.7:
        return timedelta(0)
    if r < 0.8:
        return timedelta(weeks=rng.randint(-5000, 5000), milliseconds=rng.randint(0, 999))
    return timedelta(days=rng.randint(-400, 400), hours=rng.randint(0, 23), minutes=rng.randint(0, 59), milliseconds=rng.randint(0, 999))


def gen_value(rng, mix=None, long_ok=True):
    mix = mix or {"s": 3, "b": 1, "i": 3, "f": 3, "dt": 1, "td": 1}
    kinds = list(mix)
    k = rng.choices(kinds, [mix[x] for x in kinds])[0]
    if k == "s":
        return gen_text(rng, long_ok)
    if k == "b":
        return rng.random() < 0.5
    if k == "i":
        return gen_int(rng)
    if k == "f":
        return gen_float(rng)
    if k == "dt":
        return gen_datetime(rng)
    return gen_timedelta(rng)
