"""C12: merge operations and the open-vs-saved picture."""

from __future__ import annotations

from dsim.sim import Sim, a1_range, op


@op("merge")
def op_merge(sim: Sim, a) -> str:
    ds = sim.pick_doc(a["d"])
    if ds is None:
        return "skip"
    si, ti, tm, table = sim.pick_table(ds, a["s"], a["t"])
    if tm.merge_unspecified:
        return "skip"  # (model-only mode) the rectangles are unknown until the library is asked
    if (tm.hedge or tm.vedge or tm.styles) and not sim.cfg.get("strokes_on_merged"):
        return "skip"  # only the look profile (visible-side edge model) merges ranges over cells that carry strokes or styles
    if tm.__dict__.get("opaque_look") and (tm.hedge or tm.vedge or tm.styles):
        return "skip"
    rects = []
    for r0, c0, r1, c1 in a["rects"]:
        r0, c0 = r0 % tm.nrows, c0 % tm.ncols
        r1, c1 = min(max(r1, r0), tm.nrows - 1), min(max(c1, c0), tm.ncols - 1)
        rect = (r0, c0, r1, c1)
        if (r0, c0) == (r1, c1):
            continue
        if tm.merge_overlaps(rect) or any(_overlap(rect, x) for x in rects):
            continue
        rects.append(rect)
    if not rects:
        return "skip"
    for rect in rects:
        tm.merges.append(rect)
        for r in range(rect[0], rect[2] + 1):
            for c in range(rect[1], rect[3] + 1):
                if (r, c) != (rect[0], rect[1]):
                    tm.rows[r][c] = None
                    tm.styles.pop((r, c), None)  # a covered cell becomes a placeholder: its value and style go
        if rect[0] == 0 or rect[1] == 0 or rect[2] == tm.nrows - 1 or rect[3] == tm.ncols - 1:
            sim.probe("merge_at_table_edge")
        if rect[0] == rect[2] or rect[1] == rect[3]:
            sim.probe("merge_1xN_or_Nx1")
        else:
            sim.probe("merge_NxM")
    if sim.real:
        refs = [a1_range(*r) for r in rects]
        if a.get("as_list") or len(refs) > 1:
            table.merge_cells(refs)
            sim.probe("merge_given_as_list")
        else:
            table.merge_cells(refs[0])
    return "ok"


def _overlap(a, b) -> bool:
    return a[0] <= b[2] and b[0] <= a[2] and a[1] <= b[3] and b[1] <= a[3]


def merge_picture(table):
    """What the library reports about merging, by plain attribute reads."""
    cells = []
    for r, row in enumerate(table.rows()):
        for c, cell in enumerate(row):
            cls = type(cell).__name__
            if cls == "MergedCell" or cell.is_merged:
                cells.append((r, c, cls == "MergedCell", bool(cell.is_merged), tuple(cell.size) if cell.size else None,
                              tuple(cell.rect) if getattr(cell, "rect", None) else None))
    return {"ranges": list(table.merge_ranges), "cells": cells}


def save_hook(sim: Sim, ds, slot, path) -> None:
    pics = {}
    for si, sheet in enumerate(ds.doc.sheets):
        for ti, table in enumerate(sheet.tables):
            pics[(si, ti)] = merge_picture(table)
    slot.merge_pictures = pics


def reopen_check(sim: Sim, doc, slot) -> None:
    pics = getattr(slot, "merge_pictures", None)
    if not pics:
        return
    for si, sheet in enumerate(doc.sheets):
        for ti, table in enumerate(sheet.tables):
            want = pics.get((si, ti))
            if want is None:
                continue
            got = merge_picture(table)
            try:
                tm = slot.model.sheets[si].tables[ti]
            except (IndexError, AttributeError):
                tm = None
            if got != want:
                diff = [x for x in got["cells"] if x not in want["cells"]][:3] + [x for x in want["cells"] if x not in got["cells"]][:3]
                sim.violation("C12.open_equals_saved", sim.mkey(tm, {"what": "ranges" if got["ranges"] != want["ranges"] else "cells"}),
                              f"table {si}/{ti}: open document reported merge ranges {want['ranges']} when saved, the reopened file reports {got['ranges']}; differing cells (r,c,placeholder,is_merged,size,rect): {diff}")
