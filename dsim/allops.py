"""Import every module that registers operations."""
from dsim import ops_addr  # noqa: F401
