"""Import every module that registers operations."""
from dsim import ops_addr  # noqa: F401
from dsim import ops_fault  # noqa: F401
from dsim import ops_merge  # noqa: F401
from dsim import ops_look  # noqa: F401
from dsim import ops_geom  # noqa: F401
from dsim import ops_resave  # noqa: F401
from dsim import ops_layout  # noqa: F401
from dsim import ops_pkg  # noqa: F401
