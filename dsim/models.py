"""Reference models: plain Python data, same edits as the library is asked to perform."""

from __future__ import annotations

import copy


class Opaque:
    """A cell loaded from a source document whose content the model only carries around."""

    __slots__ = ("cls", "value")

    def __init__(self, cls: str, value) -> None:
        self.cls = cls
        self.value = value

    def __eq__(self, other) -> bool:
        return isinstance(other, Opaque) and other.cls == self.cls and other.value == self.value

    def __hash__(self) -> int:
        return hash((self.cls, repr(self.value)))

    def __repr__(self) -> str:
        return f"Opaque({self.cls}, {self.value!r})"


class TableM:
    def __init__(self, name: str, nrows: int, ncols: int, hdr_r: int = 1, hdr_c: int = 1) -> None:
        self.name = name
        self.rows = [[None] * ncols for _ in range(nrows)]
        self.hdr_r = hdr_r
        self.hdr_c = hdr_c
        self.merges: list[tuple[int, int, int, int]] = []
        # ---- look (C15): only tracked in profiles that draw
        self.styles: dict[tuple[int, int], str] = {}
        self.hedge: dict[tuple[int, int], tuple] = {}  # edge above row r at column c
        self.vedge: dict[tuple[int, int], tuple] = {}  # edge left of column c at row r
        self.stroke_seq = 0
        # ---- geometry / labels (C16)
        self.row_h: dict[int, float] = {}
        self.col_w: dict[int, float] = {}
        # stroke_seq value when a size was set / when a stroke last touched the row or column:
        # a size is judged unless a stroke touched it AFTER it was set (that case is unspecified)
        self.row_h_seq: dict[int, int] = {}
        self.col_w_seq: dict[int, int] = {}
        self.row_stroke_seq: dict[int, int] = {}
        self.col_stroke_seq: dict[int, int] = {}
        self.caption = None
        self.caption_enabled = None
        self.name_enabled = None
        self.coords = None
        self.pivot = False
        # set when an edit made the expected merge picture unspecified (insert inside / cut)
        self.merge_unspecified = False
        self.struct_edited = False
        self.legacy_merges = False  # merges came from a shipped document (may be stored in formula-owner records)

    @property
    def nrows(self) -> int:
        return len(self.rows)

    @property
    def ncols(self) -> int:
        return len(self.rows[0]) if self.rows else 0

    def ncells(self) -> int:
        return self.nrows * self.ncols

    # ---- grid edits ------------------------------------------------------------------------
    def grow(self, r: int, c: int) -> None:
        if c >= self.ncols:
            add = c + 1 - self.ncols
            for row in self.rows:
                row.extend([None] * add)
        if r >= self.nrows:
            nc = self.ncols
            for _ in range(r + 1 - self.nrows):
                self.rows.append([None] * nc)

    def write(self, r: int, c: int, v) -> None:
        self.grow(r, c)
        self.rows[r][c] = v

    def _forget_positional(self, axis: int, at: int) -> None:
        """A structural edit at index ``at``: whether sizes, styles and strokes travel with their rows/columns is not
        specified by any property, so the model keeps no opinion about what sits at or beyond the edit (what the library
        reports there must still survive save/reopen: the model-free oracles see to that)."""
        sizes, seqs = (self.row_h, self.row_h_seq) if axis == 0 else (self.col_w, self.col_w_seq)
        for k in [k for k in sizes if k >= at]:
            del sizes[k]
        for k in [k for k in seqs if k >= at]:
            del seqs[k]
        if self.styles or self.hedge or self.vedge:
            self.opaque_look = True

    def add_row(self, n: int, at, default) -> None:
        nc = self.ncols
        new = [[default] * nc for _ in range(n)]
        if at is None:
            self.rows.extend(new)
        else:
            self.rows[at:at] = new
            self._shift_merges(0, at, n)
            self._forget_positional(0, at)

    def add_col(self, n: int, at, default) -> None:
        for row in self.rows:
            if at is None:
                row.extend([default] * n)
            else:
                row[at:at] = [default] * n
        if at is not None:
            self._shift_merges(1, at, n)
            self._forget_positional(1, at)

    def del_row(self, n: int, at) -> None:
        if at is None:
            at = self.nrows - n
        del self.rows[at : at + n]
        self._shift_merges(0, at, -n)
        self._forget_positional(0, at)

    def del_col(self, n: int, at) -> None:
        if at is None:
            at = self.ncols - n
        for row in self.rows:
            del row[at : at + n]
        self._shift_merges(1, at, -n)
        self._forget_positional(1, at)

    # ---- merges -------------------------------------------------------------------------------
    def _shift_merges(self, axis: int, at: int, n: int) -> None:
        """Structural edit at index ``at``: n > 0 insertion before ``at``, n < 0 deletion of [at, at-n)."""
        if not self.merges:
            return
        out = []
        for r0, c0, r1, c1 in self.merges:
            lo, hi = (r0, r1) if axis == 0 else (c0, c1)
            if n > 0:
                if at <= lo:
                    lo, hi = lo + n, hi + n
                elif at > hi:
                    pass
                else:
                    self.merge_unspecified = True  # insertion inside the rectangle
                    continue
            else:
                k = -n
                if at + k <= lo:
                    lo, hi = lo - k, hi - k
                elif at > hi:
                    pass
                else:
                    self.merge_unspecified = True  # deletion cuts the rectangle
                    continue
            out.append((lo, c0, hi, c1) if axis == 0 else (r0, lo, r1, hi))
        self.merges = out

    def merge_overlaps(self, rect) -> bool:
        r0, c0, r1, c1 = rect
        for a0, b0, a1, b1 in self.merges:
            if r0 <= a1 and a0 <= r1 and c0 <= b1 and b0 <= c1:
                return True
        return False

    def merge_at(self, r: int, c: int):
        for m in self.merges:
            if m[0] <= r <= m[2] and m[1] <= c <= m[3]:
                return m
        return None


class SheetM:
    def __init__(self, name: str) -> None:
        self.name = name
        self.tables: list[TableM] = []

    def table_names_lower(self) -> list[str]:
        return [t.name.lower() for t in self.tables]


class DocM:
    def __init__(self) -> None:
        self.sheets: list[SheetM] = []
        self.style_names: list[str] = []
        self.styles: dict[str, dict] = {}  # styles added through the API: name -> attrs
        self.custom_formats: list[str] = []
        self.source = None  # fixture or slot this document came from

    def sheet_names_lower(self) -> list[str]:
        return [s.name.lower() for s in self.sheets]

    def clone(self) -> DocM:
        return copy.deepcopy(self)

    def ncells(self) -> int:
        return sum(t.ncells() for s in self.sheets for t in s.tables)

    def tables(self):
        for si, s in enumerate(self.sheets):
            for ti, t in enumerate(s.tables):
                yield si, ti, t


def new_doc_model(rows=12, cols=8, hr=1, hc=1, sheet_name="Sheet 1", table_name="Table 1") -> DocM:
    d = DocM()
    s = SheetM(sheet_name)
    s.tables.append(TableM(table_name, rows, cols, hr, hc))
    d.sheets.append(s)
    return d


def fresh_name(prefix: str, taken_lower: list[str]) -> str:
    n = 1
    while f"{prefix.lower()} {n}" in taken_lower:
        n += 1
    return f"{prefix} {n}"
