"""
Independent structural validator for saved packages (C07).

Everything here goes through dsim.container / dsim.iwa_indep / dsim.pkg and the generated
protobuf schemas; numbers_parser's reader and writer are not used to judge their own output.
"""

from __future__ import annotations

import hashlib
import struct

from dsim import iwa_indep as iwa
from dsim.pkg import Package

FOUR_BYTE_FIELD_MASK = 0x1FFFF8  # flag bits 3..20: one 4-byte field each
KNOWN_FLAG_MASK = 0x1FFFFF


class Baseline:
    """What the source package looked like: object payload digests, member names, dangling references."""

    def __init__(self, pkg: Package | None) -> None:
        self.digests = {}
        self.members = set()
        self.dangling = set()
        self.component_ids = set()
        self.ext_refs = set()
        self.header_dangling = set()
        if pkg is None:
            return
        ids = set(pkg.objects)
        self.members = set(pkg.container.members)
        for ident, o in pkg.objects.items():
            self.digests[ident] = _digest(o.seg)
            for ref in _body_refs(o):
                if ref not in ids:
                    self.dangling.add(ref)
            for mi in o.seg.info.message_infos:
                for ref in mi.object_references:
                    if ref not in ids:
                        self.header_dangling.add(ref)
        md = pkg.metadata()
        if md is not None:
            for c in md.msg.components:
                self.component_ids.add(c.identifier)
                for er in c.external_references:
                    self.ext_refs.add((c.identifier, er.component_identifier, er.object_identifier))


def _digest(seg) -> str:
    h = hashlib.sha1()  # noqa: S324
    for p in seg.payloads:
        h.update(p)
    return h.hexdigest()


def _body_refs(o) -> list[int]:
    try:
        msg = o.msg
    except Exception:  # noqa: BLE001
        return []
    if msg is None:
        return []
    return [r for r in iwa.references_in(msg) if r != 0]


def baseline_of(path: str) -> Baseline:
    return Baseline(Package.read(path))


def record_length(buf: bytes, pos: int):
    """Length of the v5 cell record starting at pos, from its own flag word (None if it cannot be read)."""
    if pos + 12 > len(buf):
        return None
    flags = struct.unpack_from("<I", buf, pos + 8)[0]
    n = 12
    if flags & 0x1:
        n += 16
    if flags & 0x2:
        n += 8
    if flags & 0x4:
        n += 8
    n += 4 * bin(flags & FOUR_BYTE_FIELD_MASK).count("1")
    return n, flags


def validate(path: str, base: Baseline, pivot_names=()) -> list[tuple[str, dict, str]]:
    """All findings for the package at ``path`` relative to its source's baseline."""
    out = []
    try:
        pkg = Package.read(path)
    except Exception as e:  # noqa: BLE001
        return [("C07.readable", {"exc": type(e).__name__}, f"the saved package cannot be unpacked by an independent reader: {type(e).__name__}: {e}")], {}
    ids = set(pkg.objects)
    added = {i for i in ids if i not in base.digests}
    changed = {i for i in ids if i in base.digests and base.digests[i] != _digest(pkg.objects[i].seg)}
    stats = {"objects": len(ids), "added": len(added), "rewritten": len(changed), "members_added": 0, "tables": 0, "rows": 0, "records": 0}

    # ---- identifiers
    for d in pkg.duplicates:
        out.append(("C07.ids_unique", {"what": "duplicate"}, f"identifier {d} occurs in two archive segments ({pkg.objects[d].member}, ...)"))
    md = pkg.metadata()
    if md is None:
        out.append(("C07.metadata", {"what": "missing"}, "no TSP.PackageMetadata object in the package"))
        return out, stats
    hwm = md.msg.last_object_identifier
    over = sorted(i for i in added if i > hwm)
    if over:
        out.append(("C07.ids_le_hwm", {}, f"{len(over)} added object(s) have identifiers above last_object_identifier={hwm}: {over[:5]} (types {[pkg.objects[i].type_name for i in over[:3]]})"))

    # ---- references
    for i in sorted(added | changed):
        o = pkg.objects[i]
        missing = sorted({r for r in _body_refs(o) if r not in ids and r not in base.dangling})
        if missing:
            out.append(("C07.refs_closed", {"type": o.type_name, "how": "added" if i in added else "rewritten"},
                        f"object {i} ({o.type_name}, {'added' if i in added else 'rewritten'} by the save, in {o.member}) references {missing[:5]} which are not in the package"))
        hmissing = sorted({r for mi in o.seg.info.message_infos for r in mi.object_references
                           if r != 0 and r not in ids and r not in base.header_dangling and r not in base.dangling})
        if hmissing:
            out.append(("C07.header_refs_closed", {"type": o.type_name},
                        f"archive header of object {i} ({o.type_name}) lists object_references {hmissing[:5]} which are not in the package"))

    # ---- archive members listed in the metadata
    comps = list(md.msg.components)
    comp_ids = {c.identifier for c in comps}
    by_member = {}
    for c in comps:
        loc = c.locator or c.preferred_locator
        by_member.setdefault(f"Index/{loc}.iwa", []).append(c)
    for name in sorted(pkg.streams):
        if name in base.members or name == "Index/Metadata.iwa":
            continue
        stats["members_added"] += 1
        cs = by_member.get(name, [])
        if len(cs) != 1:
            out.append(("C07.components_listed", {"what": "not_listed" if not cs else "listed_twice"},
                        f"added archive {name} has {len(cs)} ComponentInfo entries in the package metadata (exactly one expected)"))
            continue
        roots = {s.identifier for s in pkg.streams[name]}
        if cs[0].identifier not in roots:
            out.append(("C07.components_listed", {"what": "identifier_mismatch"},
                        f"ComponentInfo for {name} names identifier {cs[0].identifier}, the archive holds {sorted(roots)[:5]}"))
    for c in comps:
        for er in c.external_references:
            key = (c.identifier, er.component_identifier, er.object_identifier)
            if key in base.ext_refs:
                continue
            if er.component_identifier and er.component_identifier not in comp_ids and er.component_identifier not in ids:
                out.append(("C07.metadata_refs", {"what": "component"},
                            f"component {c.identifier} ({c.preferred_locator}) gained an external reference to component {er.component_identifier} which is neither a component nor an object of the package"))
            if er.object_identifier and er.object_identifier not in ids:
                out.append(("C07.metadata_refs", {"what": "object"},
                            f"component {c.identifier} ({c.preferred_locator}) gained an external reference to object {er.object_identifier} which is not in the package"))

    # ---- tiles
    for t in pkg.table_models():
        name = t.msg.table_name
        if name in pivot_names:
            continue
        tiles, tile_size = pkg.tiles_of(t)
        touched = t.ident in added or t.ident in changed or any(o is not None and (o.ident in added or o.ident in changed) for _tid, o in tiles)
        if not touched:
            continue
        stats["tables"] += 1
        nrows, ncols = t.msg.number_of_rows, t.msg.number_of_columns
        seen_rows = set()
        total = 0
        for tid, o in tiles:
            if o is None:
                out.append(("C07.refs_closed", {"type": "TST.Tile", "how": "tile_missing"}, f"table {name!r}: tile {tid} is not in the package"))
                continue
            tile = o.msg
            total += tile.numrows
            if o.ident in added and len(tile.rowInfos) != tile.numrows:
                out.append(("C07.tiles", {"what": "numrows"}, f"table {name!r} tile {tid}: numrows={tile.numrows} but {len(tile.rowInfos)} row records"))
            for ri in tile.rowInfos:
                row = tid * tile_size + ri.tile_row_index
                stats["rows"] += 1
                if ri.tile_row_index >= tile_size or row >= nrows or row in seen_rows:
                    out.append(("C07.tiles", {"what": "row_index"}, f"table {name!r} tile {tid}: row record index {ri.tile_row_index} -> row {row} is outside 0..{nrows - 1} or repeated"))
                    continue
                seen_rows.add(row)
                msg = _check_row(ri, ncols, o.ident in added)
                if msg:
                    out.append(("C07.tiles", {"what": msg[0]}, f"table {name!r} row {row}: {msg[1]}"))
                stats["records"] += ri.cell_count
        if total != nrows:
            out.append(("C07.tiles", {"what": "coverage"}, f"table {name!r}: tiles declare {total} rows in total, the table declares {nrows}"))
        written_tiles = [o for _tid, o in tiles if o is not None and o.ident in added]
        if written_tiles and len(written_tiles) == len(tiles) and len(seen_rows) != nrows:
            out.append(("C07.tiles", {"what": "coverage"}, f"table {name!r}: {len(seen_rows)} row records for {nrows} declared rows"))
    return out, stats


def _check_row(ri, ncols: int, written_by_library: bool):
    cnt = len(ri.cell_offsets) // 2
    if len(ri.cell_offsets) % 2:
        return ("offsets_odd", "cell_offsets has an odd number of bytes")
    offs = struct.unpack(f"<{cnt}h", ri.cell_offsets)
    if written_by_library and cnt != ncols:
        return ("column_count", f"{cnt} offsets for {ncols} declared columns")
    mult = 4 if ri.has_wide_offsets else 1
    buf = ri.cell_storage_buffer
    present = [(c, o * mult) for c, o in enumerate(offs) if o >= 0]
    if any(o < -1 for o in offs):
        return ("offset_negative", f"an offset below -1: {[o for o in offs if o < -1][:3]}")
    if any(c >= ncols for c, _ in present):
        return ("column_count", f"a cell record in column {max(c for c, _ in present)} of a {ncols}-column table")
    if ri.cell_count != len(present):
        return ("cell_count", f"cell_count={ri.cell_count} but {len(present)} offsets are present")
    prev_end = 0
    prev = -1
    for idx, (c, pos) in enumerate(present):
        if pos <= prev:
            return ("offset_order", f"offsets are not strictly increasing at column {c}")
        prev = pos
        if pos % 4 and written_by_library:
            return ("alignment", f"record of column {c} starts at byte {pos}, not 4-byte aligned")
        rl = record_length(buf, pos)
        if rl is None:
            return ("out_of_bounds", f"record of column {c} at byte {pos} starts beyond the {len(buf)}-byte buffer")
        length, flags = rl
        if buf[pos] != 5:
            return ("record_version", f"record of column {c} has storage version {buf[pos]}")
        end = present[idx + 1][1] if idx + 1 < len(present) else len(buf)
        if pos + length > len(buf):
            return ("out_of_bounds", f"record of column {c}: flags {flags:#x} need {length} bytes at {pos}, buffer has {len(buf)}")
        if written_by_library and pos + length != end:
            return ("record_length", f"record of column {c}: flags {flags:#x} imply {length} bytes, the next record/end is {end - pos} bytes away (overlap or gap)")
        if pos < prev_end:
            return ("overlap", f"record of column {c} overlaps the previous record")
        prev_end = pos + length
    return None
