"""Determinism self-test: the same run seed must give the same event-log digest (which includes the
sha1 of every file saved) in another process, under another PYTHONHASHSEED, with another worker
count, and whether the run is the first of its process or comes after many others."""

from __future__ import annotations

import json
import os
import random
import subprocess
import sys
import time

VERIF = os.path.dirname(os.path.dirname(os.path.abspath(__file__)))


def digests(prop, start, end, hashseed, workers, reverse=False, seed=0):
    env = dict(os.environ)
    env["VERIF_HASHSEED"] = str(hashseed)
    env.pop("PYTHONHASHSEED", None)
    spec = f"{start}:{end}" + (":reverse" if reverse else "")
    p = subprocess.run([os.path.join(VERIF, "check"), prop, "--digests", spec, "--workers", str(workers), "--seed", str(seed)],
                       capture_output=True, text=True, env=env, timeout=3600)
    for line in p.stdout.splitlines():
        if line.startswith("DIGESTS "):
            return json.loads(line[8:])
    raise RuntimeError(f"no digests from {prop} hs={hashseed} w={workers}: rc={p.returncode}\n{p.stdout[-2000:]}\n{p.stderr[-2000:]}")


def main(args) -> int:
    from dsim.runner import PROFILE_MODULES

    n = args.runs or 64
    props = sorted(PROFILE_MODULES) if not os.environ.get("VERIF_SELFTEST_PROPS") else os.environ["VERIF_SELFTEST_PROPS"].split(",")
    rand_hs = random.SystemRandom().randrange(2, 4_000_000_000)
    bad = 0
    report = {}
    for prop in props:
        t0 = time.time()
        base = digests(prop, 0, n, 0, 16, seed=args.seed)
        configs = [
            ("hashseed=1 workers=4", dict(hashseed=1, workers=4)),
            (f"hashseed={rand_hs} workers=16 reversed order (warm vs cold)", dict(hashseed=rand_hs, workers=16, reverse=True)),
            ("hashseed=0 workers=1 (first quarter)", dict(hashseed=0, workers=1)),
        ]
        diffs = []
        for label, kw in configs:
            end = n if "workers=1 " not in label else max(4, n // 4)
            other = digests(prop, 0, end, seed=args.seed, **kw)
            for k, v in other.items():
                if base.get(k) != v:
                    diffs.append((label, k, base.get(k), v))
        errs = [k for k, v in base.items() if v[2]]
        report[prop] = {"runs": n, "configs": 1 + len(configs), "divergent": len(diffs), "harness_errors": len(errs), "wall_s": round(time.time() - t0, 1)}
        print(f"[selftest determinism] {prop}: {n} seeds x {1 + len(configs)} configurations: {len(diffs)} divergent digests, {len(errs)} harness errors ({time.time() - t0:.0f}s)", flush=True)
        for d in diffs[:5]:
            print("   DIVERGES", d, flush=True)
        bad += len(diffs) + len(errs)
    os.makedirs(os.path.join(VERIF, "evidence"), exist_ok=True)
    with open(os.path.join(VERIF, "evidence", "selftest_determinism.json"), "w") as fh:
        json.dump(report, fh, indent=1)
    return 2 if bad else 0
