"""C16: geometry and labels (ops, reopen checks)."""

from __future__ import annotations

import warnings

from dsim.sim import Sim, op


@op("set_row_height")
def op_set_row_height(sim: Sim, a) -> str:
    ds = sim.pick_doc(a["d"])
    if ds is None:
        return "skip"
    si, ti, tm, table = sim.pick_table(ds, a["s"], a["t"])
    r = a["r"] % tm.nrows
    tm.row_h[r] = a["h"]
    tm.row_h_seq[r] = tm.stroke_seq
    if sim.real:
        table.row_height(r, a["h"])
    return "ok"


@op("set_col_width")
def op_set_col_width(sim: Sim, a) -> str:
    ds = sim.pick_doc(a["d"])
    if ds is None:
        return "skip"
    si, ti, tm, table = sim.pick_table(ds, a["s"], a["t"])
    c = a["c"] % tm.ncols
    tm.col_w[c] = a["w"]
    tm.col_w_seq[c] = tm.stroke_seq
    if sim.real:
        table.col_width(c, a["w"])
    return "ok"


@op("set_headers")
def op_set_headers(sim: Sim, a) -> str:
    ds = sim.pick_doc(a["d"])
    if ds is None:
        return "skip"
    si, ti, tm, table = sim.pick_table(ds, a["s"], a["t"])
    hr = min(a.get("hr", tm.hdr_r), tm.nrows, 5)
    hc = min(a.get("hc", tm.hdr_c), tm.ncols, 5)
    tm.hdr_r, tm.hdr_c = hr, hc
    if sim.real:
        table.num_header_rows = hr
        table.num_header_cols = hc
    return "ok"


@op("set_caption")
def op_set_caption(sim: Sim, a) -> str:
    ds = sim.pick_doc(a["d"])
    if ds is None:
        return "skip"
    si, ti, tm, table = sim.pick_table(ds, a["s"], a["t"])
    if "text" in a:
        tm.caption = a["text"]
        tm.caption_real = True
        if sim.real:
            table.caption = a["text"]
    if "enabled" in a:
        # a loaded table that never had a caption carries a stand-in object: the library reports its caption as not
        # enabled whatever is set (on the open document and after reopening alike), until a caption text is set
        tm.caption_enabled = bool(a["enabled"]) if tm.__dict__.get("caption_real", True) else None
        if sim.real:
            table.caption_enabled = bool(a["enabled"])
    if "name_enabled" in a:
        tm.name_enabled = bool(a["name_enabled"])
        if sim.real:
            table.table_name_enabled = bool(a["name_enabled"])
    return "ok"


def stroke_touches_row(tm, r: int) -> bool:
    """True if a stroke was drawn on an edge of row r AFTER its height was set."""
    return tm.row_stroke_seq.get(r, 0) > tm.row_h_seq.get(r, 0)


def stroke_touches_col(tm, c: int) -> bool:
    return tm.col_stroke_seq.get(c, 0) > tm.col_w_seq.get(c, 0)


def live_geometry_hook(sim: Sim, ds, slot, path) -> None:
    """After a successful save (so the read cannot influence what was written) note what the OPEN document reports:
    names, header counts, coordinates, caption state, every row height and column width, total height and width."""
    slot.live_geom = None
    if not sim.cfg.get("live_geometry_after_save"):
        return
    from dsim.ops_look import geom_snapshot

    with warnings.catch_warnings():
        warnings.simplefilter("ignore")
        slot.live_geom = geom_snapshot(ds.doc, sizes=True)
    sim.probe("live_geometry_noted")


def reopen_check(sim: Sim, doc, slot) -> None:
    """C16.set_values_survive on a probe instance of the reopened file."""
    m = slot.model
    live = getattr(slot, "live_geom", None)
    if live is not None:
        from dsim.ops_look import geom_snapshot

        with warnings.catch_warnings():
            warnings.simplefilter("ignore")
            got = geom_snapshot(doc, sizes=True)
        for k in sorted(set(live) | set(got), key=repr):
            if live.get(k) != got.get(k):
                what = k[1] if isinstance(k[0], tuple) else k[0]
                a_, b_ = live.get(k), got.get(k)
                if isinstance(a_, tuple) and isinstance(b_, tuple) and len(a_) == len(b_) and what in ("rows", "cols"):
                    idx = [i for i, (x, y) in enumerate(zip(a_, b_)) if x != y]
                    detail = f"index {idx[:5]}: open document {[a_[i] for i in idx[:5]]}, reopened {[b_[i] for i in idx[:5]]}"
                else:
                    detail = f"open document {a_!r}, reopened {b_!r}"
                sim.violation("C16.open_equals_reopened", {"what": what}, f"reopened {slot.name} {k}: {detail}")
        sim.probe("live_geometry_compared")
    for si, ti, tm in m.tables():
        table = doc.sheets[si].tables[ti]
        where = f"reopened {slot.name} table {si}/{ti} {tm.name!r}"
        if (table.num_header_rows, table.num_header_cols) != (tm.hdr_r, tm.hdr_c):
            sim.violation("C16.set_values_survive", {"what": "header_counts"},
                          f"{where}: header rows/cols {(table.num_header_rows, table.num_header_cols)}, set to {(tm.hdr_r, tm.hdr_c)}")
        with warnings.catch_warnings():
            warnings.simplefilter("ignore")
            for r, h in tm.row_h.items():
                if r >= tm.nrows:
                    continue
                got = table.row_height(r)
                if got != h:
                    if stroke_touches_row(tm, r):
                        sim.probe("height_with_adjacent_stroke_not_judged")
                        continue
                    sim.violation("C16.set_values_survive", {"what": "row_height"}, f"{where}: row_height({r}) reloads as {got}, was set to {h}")
            for c, wv in tm.col_w.items():
                if c >= tm.ncols:
                    continue
                got = table.col_width(c)
                if got != wv:
                    if stroke_touches_col(tm, c):
                        sim.probe("width_with_adjacent_stroke_not_judged")
                        continue
                    sim.violation("C16.set_values_survive", {"what": "col_width"}, f"{where}: col_width({c}) reloads as {got}, was set to {wv}")
        if tm.caption is not None and table.caption != tm.caption:
            sim.violation("C16.set_values_survive", {"what": "caption_text"}, f"{where}: caption {table.caption!r}, set to {tm.caption!r}")
        if tm.caption_enabled is not None and bool(table.caption_enabled) != tm.caption_enabled:
            sim.violation("C16.set_values_survive", {"what": "caption_enabled"}, f"{where}: caption_enabled {table.caption_enabled}, set to {tm.caption_enabled}")
        if tm.name_enabled is not None and bool(table.table_name_enabled) != tm.name_enabled:
            sim.violation("C16.set_values_survive", {"what": "table_name_enabled"}, f"{where}: table_name_enabled {table.table_name_enabled}, set to {tm.name_enabled}")
        if tm.coords is not None:
            got = tuple(table.coordinates)
            want = tm.coords
            if got[0] != want[0] or (want[1] is not None and got[1] != want[1]):
                sim.violation("C16.set_values_survive", {"what": "coordinates"}, f"{where}: coordinates {got}, created at {want}")
