"""C02: re-saving an unmodified document preserves everything the library reads."""

from __future__ import annotations

import os
import warnings

from dsim.ops_look import _safe, apply_observers
from dsim.sim import FIXTURE_DIR, Sim, lib_frame, op


def _val(v):
    if isinstance(v, float) and v != v:
        return ("nan",)
    return (type(v).__name__, v)


def deep_snapshot(doc, deep_cap=None) -> dict:
    """Order, names and per cell: class, typed value, formula, formatted value, bullets, hyperlinks, merge state."""
    snap = {"order": [(s.name, [t.name for t in s.tables]) for s in doc.sheets]}
    for si, sheet in enumerate(doc.sheets):
        for ti, table in enumerate(sheet.tables):
            n = 0
            data = table.rows()
            snap[("dims", si, ti)] = (table.num_rows, table.num_cols, len(data))
            snap[("merge_ranges", si, ti)] = _safe(lambda: tuple(table.merge_ranges))
            for r, row in enumerate(data):
                for c, cell in enumerate(row):
                    cls = type(cell).__name__
                    rec = [cls, _val(cell.value)]
                    if cls == "MergedCell":
                        rec.append(getattr(cell, "merge_range", None))
                    else:
                        rec.append((bool(cell.is_merged), tuple(cell.size) if cell.size else None))
                    n += 1
                    if deep_cap is None or n <= deep_cap:
                        rec.append(_safe(lambda: cell.formula))
                        rec.append(_safe(lambda: cell.formatted_value))
                        rec.append(_safe(lambda: (cell.is_bulleted, tuple(cell.bullets) if cell.bullets is not None else None)))
                        rec.append(_safe(lambda: tuple(map(tuple, cell.hyperlinks)) if getattr(cell, "hyperlinks", None) else None))
                    snap[(si, ti, r, c)] = tuple(rec)
    return snap


def exceptions_of(src_doc, src_snap: dict, warned_pivots: set) -> set:
    """Keys excused by the statement: ErrorCells of the source and every cell of a pivot table."""
    skip = set()
    pivots = set()
    for si, sheet in enumerate(src_doc.sheets):
        for ti, table in enumerate(sheet.tables):
            if table.name in warned_pivots:
                pivots.add((si, ti))
    for k, v in src_snap.items():
        if isinstance(k, tuple) and len(k) == 4 and isinstance(k[0], int):
            if v[0] == "ErrorCell" or (k[0], k[1]) in pivots:
                skip.add(k)
        elif isinstance(k, tuple) and k[0] in ("dims", "merge_ranges") and (k[1], k[2]) in pivots:
            skip.add(k)
    return skip


def diff_snap(a: dict, b: dict, skip: set, limit=4):
    out = []
    for k in a.keys() | b.keys():
        if k in skip:
            continue
        if a.get(k) != b.get(k):
            out.append((k, a.get(k), b.get(k)))
            if len(out) >= 40:
                break
    out.sort(key=lambda x: str(x[0]))
    return out[:limit], len(out)


def classify(diffs) -> str:
    """Which part of the record differs first: a stable, small key for the finding identity."""
    names = ["class", "value", "merge", "formula", "formatted_value", "bullets", "hyperlinks"]
    kinds = set()
    for k, x, y in diffs:
        if not (isinstance(k, tuple) and len(k) == 4 and isinstance(k[0], int)):
            kinds.add(str(k[0]) if isinstance(k, tuple) else str(k))
            continue
        if x is None or y is None:
            kinds.add("cell_missing")
            continue
        for i, nm in enumerate(names):
            if i < len(x) and i < len(y) and x[i] != y[i]:
                kinds.add(nm)
                break
    return ",".join(sorted(kinds))


@op("resave_cycle")
def op_resave_cycle(sim: Sim, a) -> str:
    if not sim.real:
        return "ok"
    from numbers_parser import Document

    w = sim.world
    if a.get("name"):
        src = os.path.join(FIXTURE_DIR, a["name"])
        label = a["name"]
    else:
        slot = sim.slots[a["slot"]]
        if slot.status != "good":
            return "skip"
        src = sim.slot_path(slot.name)
        label = f"in-run document in {slot.name}"
    cap = a.get("deep_cap")
    package = bool(a.get("package"))
    with warnings.catch_warnings(record=True) as ws0:
        warnings.simplefilter("always")
        pristine = Document(src)
        s0 = deep_snapshot(pristine, cap)
        work = Document(src)
    pivots = set()
    prev = s0
    path = w.path("resave.numbers")
    for cyc in range(max(1, a.get("cycles", 2))):
        with warnings.catch_warnings(record=True) as ws:
            warnings.simplefilter("always")
            if a.get("observers") and (cyc == 0 or a.get("observe_each_cycle")):
                apply_observers(sim, work, a["observers"])
            w.remove(path)
            w.begin_save(None)
            try:
                if a.get("save_twice"):
                    # the opened document is saved to another place first (still without edits): every copy it writes,
                    # not only the first, must read like the source
                    other = w.path("resave-first.numbers")
                    w.remove(other)
                    work.save(other, package=not package if a.get("save_twice") == "other_form" else package)
                    sim.probe("resave_same_object_twice")
                work.save(path, package=package)
            except Exception as e:  # noqa: BLE001
                fr = lib_frame(e)
                sim.violation("C02.save_raises", {"exc": type(e).__name__, "in": f"{fr[0]}:{fr[1]}" if fr else "?"},
                              f"{label}: cycle {cyc + 1}: saving the unmodified document raised {type(e).__name__}: {e}")
            finally:
                w.end_save()
        for wn in ws:
            msg = str(wn.message)
            if "pivot table" in msg:
                pivots.add(msg.split("'")[1] if "'" in msg else msg)
                sim.probe("pivot_table_excused")
        with warnings.catch_warnings():
            warnings.simplefilter("ignore")
            try:
                work = Document(path)
                sk = deep_snapshot(Document(path), cap)
            except Exception as e:  # noqa: BLE001
                fr = lib_frame(e)
                sim.violation("C02.reopen_raises", {"exc": type(e).__name__, "in": f"{fr[0]}:{fr[1]}" if fr else "?"},
                              f"{label}: cycle {cyc + 1}: the re-saved copy does not open/read: {type(e).__name__}: {e}")
        skip = exceptions_of(pristine, s0, pivots)
        if cyc == 0:
            d, n = diff_snap(s0, sk, skip)
            if d:
                sim.violation("C02.snapshot_equal", {"differs": classify(d)},
                              f"{label}: after one plain open/save {n}{'+' if n >= 40 else ''} entries differ; first (key, source, copy): {d}")
        else:
            d, n = diff_snap(prev, sk, skip)
            if d:
                sim.violation("C02.second_cycle_fixpoint", {"differs": classify(d)},
                              f"{label}: cycle {cyc + 1} differs from cycle {cyc} in {n}{'+' if n >= 40 else ''} entries; first (key, before, after): {d}")
        prev = sk
        sim.stats["cells_compared"] += len(sk)
        sim.log.append([sim.step_no, "resaved", label, cyc, w.tree_digest(path)])
    n_err = sum(1 for k, v in s0.items() if isinstance(k, tuple) and len(k) == 4 and isinstance(k[0], int) and v[0] == "ErrorCell")
    if n_err:
        sim.probe("error_cells_excused", n_err)
    return "ok"
