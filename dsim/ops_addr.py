"""Operations for C11 (addressing, bounds, iteration) and C19 (collections)."""

from __future__ import annotations

import warnings

from dsim import values as V
from dsim.sim import CELL_CAP, MAX_COL, MAX_ROW, Sim, a1, op

# ---------------------------------------------------------------------------------------------
# C19


def _expect_index_error(sim: Sim, coll, i, kind, case) -> None:
    try:
        item = coll[i]
    except IndexError:
        return
    except Exception as e:  # noqa: BLE001
        sim.violation("C19.lookup_index", {"kind": kind, "case": case},
                      f"{kind}[{i}] with {len(coll)} items raised {type(e).__name__}: {e} instead of IndexError")
    sim.violation("C19.lookup_index", {"kind": kind, "case": case},
                  f"{kind}[{i}] with {len(coll)} items returned {getattr(item, 'name', item)!r} instead of raising IndexError")


def _check_collection(sim: Sim, coll, names: list[str], kind: str, extra: int) -> None:
    n = len(names)
    if len(coll) != n:
        sim.violation("C19.lookup_index", {"kind": kind, "case": "len"}, f"len({kind}) = {len(coll)}, model {n}")
    # iteration order (the sequence protocol: __getitem__ from 0 until IndexError)
    seen = []
    for item in coll:
        seen.append(item)
        if len(seen) > n + 2:
            break
    if [x.name for x in seen] != names:
        sim.violation("C19.lookup_index", {"kind": kind, "case": "iteration"},
                      f"iterating {kind} yields {[x.name for x in seen]}, model {names}")
    for i in range(-2 * n - extra, 2 * n + extra + 1):
        if -n <= i < n:
            try:
                got = coll[i]
            except Exception as e:  # noqa: BLE001
                sim.violation("C19.lookup_index", {"kind": kind, "case": "in_range"},
                              f"{kind}[{i}] with {n} items raised {type(e).__name__}: {e}")
            if got is not seen[i]:
                sim.violation("C19.lookup_index", {"kind": kind, "case": "in_range"},
                              f"{kind}[{i}] is {got.name!r}, iteration order says {seen[i].name!r}")
        else:
            _expect_index_error(sim, coll, i, kind, "neg_beyond" if i < 0 else "pos_beyond")
    # by name: the item with exactly that name (first in order when a name occurs twice)
    for idx, nm in enumerate(names):
        try:
            got = coll[nm]
        except Exception as e:  # noqa: BLE001
            sim.violation("C19.lookup_name", {"kind": kind, "case": "present"},
                          f"{kind}[{nm!r}] raised {type(e).__name__}: {e} although an item has that name")
        if got.name != nm:
            sim.violation("C19.lookup_name", {"kind": kind, "case": "wrong_item"},
                          f"{kind}[{nm!r}] returned the item named {got.name!r}")
        first = names.index(nm)
        if names.count(nm) == 1 and got is not seen[first]:
            sim.violation("C19.lookup_name", {"kind": kind, "case": "wrong_item"},
                          f"{kind}[{nm!r}] returned a different object than position {first}")
    low = [x.lower() for x in names]
    sim.stats["cells_compared"] += 4 * n + 2 * extra


@op("lookup")
def op_lookup(sim: Sim, a) -> str:
    ds = sim.pick_doc(a["d"])
    if ds is None:
        return "skip"
    m = ds.model
    if not sim.real:
        return "ok"
    extra = a.get("extra", 1)
    _check_collection(sim, ds.doc.sheets, [s.name for s in m.sheets], "sheets", extra)
    si = a.get("s", 0) % len(m.sheets)
    _check_collection(sim, ds.doc.sheets[si].tables, [t.name for t in m.sheets[si].tables], "tables", extra)
    return "ok"


def check_unique_names(sim: Sim) -> None:
    """C19.unique after every op: no two siblings equal ignoring case (adds must preserve this)."""
    for ds in sim.docs:
        names = [s.name.lower() for s in ds.doc.sheets]
        if len(set(names)) != len(names) and not ds.model.__dict__.get("_dups_in_source"):
            sim.violation("C19.unique", {"kind": "sheet"}, f"sibling sheets with equal names ignoring case: {[s.name for s in ds.doc.sheets]}")
        for sheet in ds.doc.sheets:
            tn = [t.name.lower() for t in sheet.tables]
            if len(set(tn)) != len(tn) and not ds.model.__dict__.get("_dups_in_source"):
                sim.violation("C19.unique", {"kind": "table"}, f"sibling tables with equal names ignoring case: {[t.name for t in sheet.tables]}")


# ---------------------------------------------------------------------------------------------
# C11


def _resolve(cls: dict, n: int, limit: int) -> int:
    rel = cls["rel"]
    k = cls.get("k", 0)
    if rel == "neg":
        return -abs(k) if k else -1
    if rel == "in":
        return k % n
    if rel == "n":
        return n + k
    if rel == "max":
        return limit + k
    return k


def _fmt_pos(r, c, nota):
    """Positional arguments for a position; None when the notation cannot express it."""
    if nota == "rc":
        return (r, c)
    if c < 0:
        return None
    if r < -1:
        return None
    ref = a1(r, c, abs_=(nota == "abs"))
    if nota == "lower":
        ref = ref.lower()
    return (ref,)


BORDER_SIDES = ["top", "right", "bottom", "left", ["top"], ["left", "bottom"], ["top", "right", "bottom", "left"], ["right", "top"]]
FORMAT_VARIANTS = [("number", {"decimal_places": 2}), ("currency", {"currency_code": "EUR", "decimal_places": 1}), ("percentage", {"decimal_places": 0}),
                   ("scientific", {"decimal_places": 3}), ("base", {"base": 16}), ("fraction", {}), ("number", {"show_thousands_separator": True})]


def border_variant(variant, r, c, nrows, ncols):
    """(side or list of sides, length or None) for a variant number: every side form x stroke lengths that fit the table."""
    if variant is None:
        return "top", None
    side = BORDER_SIDES[variant % len(BORDER_SIDES)]
    length = [None, 1, 2, 3][(variant // len(BORDER_SIDES)) % 4]
    sides = side if isinstance(side, list) else [side]
    room = min([ncols - c for x in sides if x in ("top", "bottom")] + [nrows - r for x in sides if x in ("left", "right")])
    if length is not None and length > room:
        length = max(1, room)
    return side, length


def _method_call(sim, ds, table, method, pos, payload, variant=None):
    from numbers_parser import RGB, Border

    if method == "cell":
        return table.cell(*pos)
    if method == "write":
        return table.write(*pos, payload if payload is not None else "x")
    if method == "set_cell_style":
        name = next(iter(ds.doc.styles))
        return table.set_cell_style(*pos, name if not (variant or 0) % 2 else ds.doc.styles[name])
    if method == "set_cell_formatting":
        kind, kw = FORMAT_VARIANTS[(variant or 0) % len(FORMAT_VARIANTS)]
        return table.set_cell_formatting(*pos, kind, **kw)
    if method == "set_cell_border":
        side, length = border_variant(variant, *getattr(sim, "_twin_geom", (0, 0, 1, 1)))
        b = Border([1.0, 2.0, 0.5][(variant or 0) % 3], RGB(0, 0, (variant or 0) % 200), ["solid", "dashes", "dots"][(variant or 0) % 3])
        if length is None:
            return table.set_cell_border(*pos, side, b)
        return table.set_cell_border(*pos, side, b, length)
    msg = f"unknown method {method}"
    raise ValueError(msg)


@op("bad_pos")
def op_bad_pos(sim: Sim, a) -> str:
    """A position-taking call that must raise IndexError and change nothing."""
    ds = sim.pick_doc(a["d"])
    if ds is None:
        return "skip"
    si, ti, tm, table = sim.pick_table(ds, a["s"], a["t"])
    method = a["method"]
    r = _resolve(a["r"], tm.nrows, MAX_ROW)
    c = _resolve(a["c"], tm.ncols, MAX_COL)
    nota = a.get("nota", "rc")
    if method == "cell":
        bad = r < 0 or c < 0 or r >= tm.nrows or c >= tm.ncols
    else:
        bad = r < 0 or c < 0 or r >= MAX_ROW or c >= MAX_COL
    if not bad:
        return "skip"
    pos = _fmt_pos(r, c, nota)
    if pos is None:
        return "skip"
    if not sim.real:
        return "raises_IndexError"
    axis = "row" if (r < 0 or r >= (tm.nrows if method == "cell" else MAX_ROW)) else "col"
    side = "negative" if (r < 0 or c < 0) else ("outside" if method == "cell" else "beyond_limit")
    key = {"method": method, "side": side, "axis": axis, "nota": "a1" if nota != "rc" else "rc"}
    with warnings.catch_warnings():
        warnings.simplefilter("ignore")
        try:
            _method_call(sim, ds, table, method, pos, None)
        except IndexError:
            sim.probe(f"bad_pos_{method}_{side}")
            return "raises_IndexError"  # check_all afterwards verifies that nothing changed
        except Exception as e:  # noqa: BLE001
            sim.violation("C11.reject", key, f"{method}{pos} on a {tm.nrows}x{tm.ncols} table raised {type(e).__name__}: {e} instead of IndexError")
    sim.violation("C11.reject", key, f"{method}{pos} on a {tm.nrows}x{tm.ncols} table did not raise IndexError")
    return "?"


@op("lower_pos")
def op_lower_pos(sim: Sim, a) -> str:
    """Lower-case A1: either addresses the same cell as upper case or raises IndexError, changing nothing."""
    ds = sim.pick_doc(a["d"])
    if ds is None:
        return "skip"
    si, ti, tm, table = sim.pick_table(ds, a["s"], a["t"])
    r, c = a["r"] % tm.nrows, a["c"] % tm.ncols
    if not sim.real:
        return "ok"
    ref = a1(r, c).lower()
    try:
        cell = table.cell(ref)
    except IndexError:
        return "raises_IndexError"
    except Exception as e:  # noqa: BLE001
        sim.violation("C11.reject", {"method": "cell", "side": "lower_case"}, f"cell({ref!r}) raised {type(e).__name__}: {e}")
    if cell is not table.rows()[r][c]:
        sim.violation("C11.same_cell", {"method": "cell", "nota": "lower"}, f"cell({ref!r}) is not the cell at [{r},{c}]")
    return "ok"


@op("read_pos")
def op_read_pos(sim: Sim, a) -> str:
    """cell() in every notation returns the very cell object at that grid position."""
    ds = sim.pick_doc(a["d"])
    if ds is None:
        return "skip"
    si, ti, tm, table = sim.pick_table(ds, a["s"], a["t"])
    r, c = a["r"] % tm.nrows, a["c"] % tm.ncols
    if not sim.real:
        return "ok"
    want = table.rows()[r][c]
    for nota in ("rc", "a1", "abs"):
        got = table.cell(*_fmt_pos(r, c, nota))
        if got is not want:
            sim.violation("C11.same_cell", {"method": "cell", "nota": nota},
                          f"cell{_fmt_pos(r, c, nota)} returned the cell at ({got.row},{got.col}), expected [{r},{c}]")
    return "ok"


@op("iter")
def op_iter(sim: Sim, a) -> str:
    """iter_rows / iter_cols over a min/max combination: the model slice in order, or IndexError."""
    ds = sim.pick_doc(a["d"])
    if ds is None:
        return "skip"
    si, ti, tm, table = sim.pick_table(ds, a["s"], a["t"])
    if not sim.real:
        return "ok"
    nr, nc = tm.nrows, tm.ncols

    def res(spec, n):
        if spec is None:
            return None
        rel, k = spec
        return {"abs": k, "last": n - 1 + k}[rel]

    min_row, max_row = res(a.get("min_row"), nr), res(a.get("max_row"), nr)
    min_col, max_col = res(a.get("min_col"), nc), res(a.get("max_col"), nc)
    which = a.get("which", "rows")
    values_only = a.get("values_only", False)
    e_min_row = 0 if min_row is None else min_row
    e_max_row = nr - 1 if max_row is None else max_row
    e_min_col = 0 if min_col is None else min_col
    e_max_col = nc - 1 if max_col is None else max_col
    if e_min_row > e_max_row or e_min_col > e_max_col:
        return "skip"  # empty/inverted ranges: what should happen is not specified
    out_of_range = e_min_row < 0 or e_min_col < 0 or e_max_row >= nr or e_max_col >= nc or e_min_row >= nr or e_min_col >= nc
    data = table.rows()
    kw = {}
    if min_row is not None:
        kw["min_row"] = min_row
    if max_row is not None:
        kw["max_row"] = max_row
    if min_col is not None:
        kw["min_col"] = min_col
    if max_col is not None:
        kw["max_col"] = max_col
    if values_only:
        kw["values_only"] = True
    key = {"which": which, "case": _iter_case(a)}
    try:
        it = table.iter_rows(**kw) if which == "rows" else table.iter_cols(**kw)
        got = [tuple(x) for x in it]
    except IndexError:
        if out_of_range:
            sim.probe("iter_out_of_range_rejected")
            return "raises_IndexError"
        sim.violation("C11.iter", key, f"iter_{which}({kw}) on {nr}x{nc} raised IndexError for an in-range rectangle")
    except Exception as e:  # noqa: BLE001
        sim.violation("C11.iter", key, f"iter_{which}({kw}) on {nr}x{nc} raised {type(e).__name__}: {e}")
    if out_of_range:
        sim.violation("C11.iter", key, f"iter_{which}({kw}) on {nr}x{nc} addresses cells outside the table but yielded {len(got)} tuples instead of raising IndexError")
    if False:
        pass
    elif which == "rows":
        want = [tuple(data[r][e_min_col : e_max_col + 1]) for r in range(e_min_row, e_max_row + 1)]
    else:
        want = [tuple(data[r][c] for r in range(e_min_row, e_max_row + 1)) for c in range(e_min_col, e_max_col + 1)]
    if values_only:
        want = [tuple(cell.value for cell in tup) for tup in want]
        same = len(got) == len(want) and all(len(g) == len(w) and all(V.typed_eq(x, y) for x, y in zip(w, g)) for g, w in zip(got, want))
    else:
        same = len(got) == len(want) and all(len(g) == len(w) and all(x is y for x, y in zip(g, w)) for g, w in zip(got, want))
    if not same:
        shape_got = (len(got), len(got[0]) if got else 0)
        shape_want = (len(want), len(want[0]) if want else 0)
        sim.violation("C11.iter", key, f"iter_{which}({kw}) on {nr}x{nc}: yielded {shape_got[0]} tuples of {shape_got[1]}, the addressed rectangle is {shape_want[0]} of {shape_want[1]} (or cells differ)")
    return "ok"


def _iter_case(a) -> str:
    parts = []
    for k in ("min_row", "max_row", "min_col", "max_col"):
        v = a.get(k)
        if v is None:
            continue
        rel, kk = v
        if rel == "abs" and kk == 0:
            parts.append(f"{k}=0")
        elif rel == "abs" and kk < 0:
            parts.append(f"{k}<0")
        elif rel == "last" and kk > 0:
            parts.append(f"{k}>last")
        else:
            parts.append(f"{k}=in")
    return ",".join(parts) or "defaults"


@op("twin")
def op_twin(sim: Sim, a) -> str:
    """
    The same position-taking call sent to table 0 in row/column form and to table 1 in A1 form.
    Both tables (same sheet, created identically) must stay equal to the model and to each other.
    """
    ds = sim.pick_doc(a["d"])
    if ds is None:
        return "skip"
    m = ds.model
    si = a.get("s", 0) % len(m.sheets)
    if len(m.sheets[si].tables) < 2:
        return "skip"
    t0, t1 = m.sheets[si].tables[0], m.sheets[si].tables[1]
    if (t0.nrows, t0.ncols) != (t1.nrows, t1.ncols):
        return "skip"
    r, c = a["r"], a["c"]
    method = a["method"]
    if r < 0 or c < 0 or r >= MAX_ROW or c >= MAX_COL:
        return "skip"
    if max(t0.nrows, r + 1) * max(t0.ncols, c + 1) > CELL_CAP:
        return "skip"
    if method == "set_cell_formatting" and (r >= t0.nrows or c >= t0.ncols or V.kind_of(t0.rows[r][c]) != "NumberCell" or isinstance(t0.rows[r][c], bool)):
        return "skip"
    for tmx in (t0, t1):
        mm = tmx.merge_at(r, c)
        if mm is not None and (mm[0], mm[1]) != (r, c):
            return "skip"  # bound (as in C12): position-taking calls are not sent to the covered cells of a merged range
    if method == "set_cell_border" and (t0.merges or t1.merges):
        return "skip"
    if t0.merges != t1.merges:
        return "skip"
    v = V.dec(a.get("v")) if method == "write" else None
    grew = r >= t0.nrows or c >= t0.ncols
    for tm in (t0, t1):
        if method == "write":
            tm.write(r, c, v)
        else:
            tm.grow(r, c)
    if sim.real:
        nota1 = a.get("nota", "a1")
        tables = ds.doc.sheets[si].tables
        with warnings.catch_warnings():
            warnings.simplefilter("ignore")
            sim._twin_geom = (r, c, t0.nrows, t0.ncols)
            _method_call(sim, ds, tables[0], method, _fmt_pos(r, c, "rc"), v, a.get("variant"))
            _method_call(sim, ds, tables[1], method, _fmt_pos(r, c, nota1), v, a.get("variant"))
        if grew:
            for tb in (tables[0], tables[1]):
                if (tb.num_rows, tb.num_cols) != (t0.nrows, t0.ncols):
                    sim.violation("C11.grow_exact", {"method": method},
                                  f"{method} at [{r},{c}] grew the table to {tb.num_rows}x{tb.num_cols}, exactly {t0.nrows}x{t0.ncols} is required")
            sim.probe("twin_grow_" + method)
        _compare_twins(sim, tables[0], tables[1], r, c, method)
        if method == "set_cell_border" and not t0.merges:
            _border_landed(sim, tables, r, c, a.get("variant"), t0)
    return "ok_grew" if grew else "ok"


def _border_landed(sim: Sim, tables, r, c, variant, tm) -> None:
    """C11.acts_on_addressed_cell: a stroke just drawn is the most recent one on its edge, so the ADDRESSED cell (and the
    cells the stroke runs along) must report exactly that border on that side - in both twins."""
    side, length = border_variant(variant, r, c, tm.nrows, tm.ncols)
    sides = side if isinstance(side, list) else [side]
    v = variant or 0
    from numbers_parser import RGB, Border

    wb = Border([1.0, 2.0, 0.5][v % 3], RGB(0, 0, v % 200), ["solid", "dashes", "dots"][v % 3]) if variant is not None else Border(1.0, RGB(0, 0, 0), "solid")
    want = (wb.width, tuple(wb.color), int(wb.style))
    for which, table in enumerate([tables[0], tables[1]]):
        data = table.rows()
        for sd in sides:
            for k in range(length or 1):
                rr, cc = (r, c + k) if sd in ("top", "bottom") else (r + k, c)
                if rr >= len(data) or cc >= len(data[rr]):
                    continue
                b = getattr(data[rr][cc].border, sd)
                got = None if b is None else (b.width, tuple(b.color), int(b.style))
                # a list of sides is applied in order: a later side of the same call cannot overwrite an earlier one
                if got != want:
                    sim.violation("C11.acts_on_addressed_cell", {"method": "set_cell_border", "form": "rc" if which == 0 else "a1"},
                                  f"set_cell_border at [{r},{c}] side {sd!r} length {length}: cell [{rr},{cc}] of twin {which} reports {got} on that side, expected {want}")


def _cell_look(cell):
    style = cell._style.name if cell._style is not None else None
    b = cell._border
    sides = tuple(
        None if x is None else (x.width, tuple(x.color), int(x.style)) for x in (b._top, b._right, b._bottom, b._left)
    )
    fmt = tuple(getattr(cell, k, None) is not None for k in ("_num_format_id", "_currency_format_id", "_date_format_id", "_duration_format_id", "_text_format_id", "_bool_format_id", "_control_id"))
    return (type(cell).__name__, style, sides, fmt)


def _compare_twins(sim: Sim, ta, tb, r, c, method) -> None:
    """C11.twins_equal: plain attribute reads only (no cache-filling accessor is touched)."""
    da, db = ta.rows(), tb.rows()
    if len(da) != len(db) or any(len(x) != len(y) for x, y in zip(da, db)):
        sim.violation("C11.twins_equal", {"method": method, "what": "dims"}, f"twins differ in shape after {method} at [{r},{c}]")
    for rr, (ra, rb) in enumerate(zip(da, db)):
        for cc, (ca, cb) in enumerate(zip(ra, rb)):
            la, lb = _cell_look(ca), _cell_look(cb)
            if la != lb or not V.typed_eq(ca.value, cb.value):
                sim.violation("C11.twins_equal", {"method": method, "what": "cell"},
                              f"after {method} at [{r},{c}] (row/col form vs A1 form) cell [{rr},{cc}] differs: {la} {V.short(ca.value)} vs {lb} {V.short(cb.value)}")
    if method == "set_cell_formatting":
        fa, fb = da[r][c].formatted_value, db[r][c].formatted_value
        if fa != fb:
            sim.violation("C11.twins_equal", {"method": method, "what": "formatted"}, f"formatted values differ: {fa!r} vs {fb!r}")
