"""C15: styles and borders (ops, last-writer-wins edge model, observers, reopen checks)."""

from __future__ import annotations

import os
import warnings

from dsim import values as V
from dsim.sim import FIXTURE_DIR, Sim, _pos_args, op

STYLE_DEFAULTS = {
    "alignment": ("auto", "top"), "bg_color": None, "bg_image": None, "font_color": (0, 0, 0), "font_size": 11.0,
    "font_name": "Helvetica Neue", "bold": False, "italic": False, "strikethrough": False, "underline": False,
    "first_indent": 0.0, "left_indent": 0.0, "right_indent": 0.0, "text_inset": 4.0, "text_wrap": True,
}
H_NAMES = {0: "left", 1: "right", 2: "center", 3: "justified", 4: "auto"}
V_NAMES = {0: "top", 1: "middle", 2: "bottom"}
IMAGES = {"cat.jpg": None}


def _image_bytes(name: str) -> bytes:
    """Image data per file name: the shipped cat.jpg, followed (for other names) by a trailer that makes every image's
    bytes and length distinct (bytes after the JPEG end marker are ignored by viewers)."""
    if IMAGES.get(name) is None:
        with open(os.path.join(FIXTURE_DIR, "cat.jpg"), "rb") as fh:
            data = fh.read()
        if name != "cat.jpg":
            data += name.encode("utf-8") * (3 + len(name) % 5)
        IMAGES[name] = data
    return IMAGES[name]


def _image_id(data) -> tuple:
    import hashlib

    return None if data is None else (len(data), hashlib.sha1(bytes(data)).hexdigest()[:12])  # noqa: S324


def style_snapshot(style) -> dict:
    """Every public attribute of a Style as plain data."""
    if style is None:
        return None
    al = style.alignment
    bg = style.bg_color
    if isinstance(bg, list):
        bgv = [tuple(x) for x in bg]
    else:
        bgv = tuple(bg) if bg is not None else None
    img = style.bg_image
    return {
        "alignment": (H_NAMES.get(int(al.horizontal), al.horizontal), V_NAMES.get(int(al.vertical), al.vertical)),
        "bg_color": bgv,
        "bg_image": None if img is None else (img.filename, _image_id(img.data)),
        "font_color": tuple(style.font_color),
        "font_size": style.font_size,
        "font_name": style.font_name,
        "bold": style.bold, "italic": style.italic, "strikethrough": style.strikethrough, "underline": style.underline,
        "first_indent": style.first_indent, "left_indent": style.left_indent, "right_indent": style.right_indent,
        "text_inset": style.text_inset, "text_wrap": style.text_wrap, "name": style.name,
    }


def border_snapshot(cell) -> tuple:
    b = cell.border
    out = []
    for side in ("top", "right", "bottom", "left"):
        x = getattr(b, side)
        out.append(None if x is None else (x.width, tuple(x.color), int(x.style)))
    return tuple(out)


def expected_style(attrs: dict) -> dict:
    e = dict(STYLE_DEFAULTS)
    e.update(attrs)
    e["alignment"] = tuple(e["alignment"])
    for k in ("bg_color", "font_color"):
        if e[k] is not None:
            e[k] = tuple(e[k])
    if e["bg_image"] is not None:
        e["bg_image"] = (e["bg_image"], _image_id(_image_bytes(e["bg_image"])))
    return e


def _style_kwargs(attrs: dict) -> dict:
    from numbers_parser import RGB, Alignment, BackgroundImage

    kw = {}
    for k, v in attrs.items():
        if k == "alignment":
            kw[k] = Alignment(*v)
        elif k in ("bg_color", "font_color"):
            kw[k] = RGB(*v) if v is not None else None
        elif k == "bg_image":
            kw[k] = BackgroundImage(_image_bytes(v), v) if v is not None else None
        else:
            kw[k] = v
    return kw


@op("add_style")
def op_add_style(sim: Sim, a) -> str:
    ds = sim.pick_doc(a["d"])
    if ds is None:
        return "skip"
    m = ds.model
    name = a.get("name")
    attrs = dict(a["attrs"])
    if name is not None and (name in m.styles or name in m.style_names):
        return "skip"
    if attrs.get("bg_image") is not None and any(s.get("bg_image") == attrs["bg_image"] for s in m.styles.values()):
        # one image file name can be stored once per document (documented IndexError)
        attrs.pop("bg_image")
    if len(m.styles) >= 12:
        return "skip"
    if not sim.real:
        nm = name or f"Custom Style {len([n for n in m.styles if n.startswith('Custom Style ')]) + 1}"
        m.styles[nm] = attrs
        return "ok"
    kw = _style_kwargs(attrs)
    if name is not None:
        kw["name"] = name
    st = ds.doc.add_style(**kw)
    if st.name in m.styles:
        sim.violation("C15.style_name_fresh", {"auto": name is None}, f"add_style returned the name {st.name!r} which an earlier custom style already has")
    m.styles[st.name] = attrs
    ds.__dict__.setdefault("style_objs", {})[st.name] = st
    return "ok"


@op("mutate_style")
def op_mutate_style(sim: Sim, a) -> str:
    """Change one attribute of a style object that was created in this session (and may already be applied):
    every cell carrying the style must read back the new value, now and after reload."""
    ds = sim.pick_doc(a["d"])
    if ds is None:
        return "skip"
    objs = getattr(ds, "style_objs", {}) if sim.real else {n: None for n in ds.model.styles}
    names = [n for n in ds.model.styles if n in objs]
    if not names:
        return "skip"
    name = names[a["style"] % len(names)]
    attrs = ds.model.styles[name]
    k, v = a["attr"], a["value"]
    if k == "bg_color" and attrs.get("bg_image") is not None:
        return "skip"
    if isinstance(v, list):
        v = tuple(v)
    attrs = dict(attrs)
    if v is None:
        attrs.pop(k, None)
    else:
        attrs[k] = v
    ds.model.styles[name] = attrs
    if sim.real:
        kw = _style_kwargs({k: v})
        setattr(objs[name], k, kw[k])
        sim.probe("style_mutated_" + k)
    return "ok"


@op("set_style")
def op_set_style(sim: Sim, a) -> str:
    ds = sim.pick_doc(a["d"])
    if ds is None:
        return "skip"
    si, ti, tm, table = sim.pick_table(ds, a["s"], a["t"])
    objs = getattr(ds, "style_objs", {}) if sim.real else {n: None for n in ds.model.styles}
    names = [n for n in ds.model.styles if n in objs]
    if not names:
        return "skip"
    name = names[a["style"] % len(names)]
    r, c = a["r"] % tm.nrows, a["c"] % tm.ncols
    if tm.merge_at(r, c) is not None:
        return "skip"
    via = a.get("via", "set")
    if via == "write":
        v = V.dec(a.get("v")) if a.get("v") is not None else "s"
        tm.rows[r][c] = v
    tm.styles[(r, c)] = name
    if sim.real:
        pos = _pos_args(r, c, a.get("nota", "rc"))
        if via == "write":
            with warnings.catch_warnings():
                warnings.simplefilter("ignore")
                table.write(*pos, v, style=objs[name])
        elif via == "name":
            table.set_cell_style(*pos, name)
        else:
            table.set_cell_style(*pos, objs[name])
    return "ok"


def _edge_keys(side: str, r: int, c: int, length: int):
    if side == "top":
        return "h", [(r, cc) for cc in range(c, c + length)]
    if side == "bottom":
        return "h", [(r + 1, cc) for cc in range(c, c + length)]
    if side == "left":
        return "v", [(rr, c) for rr in range(r, r + length)]
    return "v", [(rr, c + 1) for rr in range(r, r + length)]


@op("border")
def op_border(sim: Sim, a) -> str:
    ds = sim.pick_doc(a["d"])
    if ds is None:
        return "skip"
    si, ti, tm, table = sim.pick_table(ds, a["s"], a["t"])
    side = a["side"]
    r, c = a["r"] % tm.nrows, a["c"] % tm.ncols
    if tm.merges and not sim.cfg.get("strokes_on_merged"):
        return "skip"  # only the look profile models strokes on tables with merged ranges
    if tm.merges and not side_visible(tm, r, c, side):
        # documented: the edge of the addressed cell is hidden inside its merged range; the call is
        # ignored (with a RuntimeWarning)
        sim.probe("stroke_on_hidden_merged_edge")
        if sim.real:
            from numbers_parser import RGB, Border

            with warnings.catch_warnings():
                warnings.simplefilter("ignore")
                table.set_cell_border(*_pos_args(r, c, a.get("nota", "rc")), side, Border(a["width"], RGB(*a["color"]), a["style"]), max(1, a.get("len") or 1))
        return "ignored_hidden_edge"
    room = (tm.ncols - c) if side in ("top", "bottom") else (tm.nrows - r)
    length = max(1, min(a.get("len", 1), room))
    val = (a["width"], tuple(a["color"]), {"solid": 0, "dashes": 1, "dots": 2, "none": 3}[a["style"]])
    kind, keys = _edge_keys(side, r, c, length)
    edges = tm.hedge if kind == "h" else tm.vedge
    over = sum(1 for k in keys if k in edges)
    if over:
        sim.probe("stroke_over_existing_edge")
        if over < len(keys):
            sim.probe("stroke_partially_overlapping")
    for k in keys:
        edges[k] = val
    tm.stroke_seq += 1
    for k in keys:
        if kind == "h":
            tm.row_stroke_seq[k[0]] = tm.row_stroke_seq[k[0] - 1] = tm.stroke_seq
        else:
            tm.col_stroke_seq[k[1]] = tm.col_stroke_seq[k[1] - 1] = tm.stroke_seq
    if sim.real:
        from numbers_parser import RGB, Border

        b = Border(a["width"], RGB(*a["color"]), a["style"])
        pos = _pos_args(r, c, a.get("nota", "rc"))
        with warnings.catch_warnings(record=True) as ws:
            warnings.simplefilter("always")
            if a.get("len") is None:
                table.set_cell_border(*pos, side, b)
            else:
                table.set_cell_border(*pos, side, b, length)
        for w in ws:
            sim.probe("warn_border_" + w.category.__name__)
    return "ok"


def side_visible(tm, r: int, c: int, side: str) -> bool:
    """A side of a cell is visible unless the edge lies strictly inside the cell's merged range."""
    m = tm.merge_at(r, c)
    if m is None:
        return True
    r0, c0, r1, c1 = m
    return {"top": r == r0, "bottom": r == r1, "left": c == c0, "right": c == c1}[side]


def expected_borders(tm, r: int, c: int) -> tuple:
    vals = (tm.hedge.get((r, c)), tm.vedge.get((r, c + 1)), tm.hedge.get((r + 1, c)), tm.vedge.get((r, c)))
    if not tm.merges:
        return vals
    return tuple(v if side_visible(tm, r, c, s) else None for v, s in zip(vals, ("top", "right", "bottom", "left")))


def check_look(sim: Sim, table, tm, where: str, what: str, reloaded: bool, cells=None, defaults=None) -> None:
    """Compare style and/or borders of the given cells (default: all) with the model."""
    sfx = "reloaded" if reloaded else "now"
    if tm.__dict__.get("opaque_look"):
        return
    data = table.rows()
    if cells is None:
        cells = [(r, c) for r in range(tm.nrows) for c in range(tm.ncols)]
    for r, c in cells:
        cell = data[r][c]
        if type(cell).__name__ == "MergedCell" and (what == "style" or not sim.cfg.get("strokes_on_merged")):
            continue
        if what in ("style", "both") and type(cell).__name__ != "MergedCell":
            name = tm.styles.get((r, c))
            if name is not None:
                got = style_snapshot(cell.style)
                attrs = sim_doc_styles(sim, tm).get(name)
                if attrs is None:
                    continue
                want = expected_style(attrs)
                want["name"] = name
                diff = {k: (got.get(k), want[k]) for k in want if got.get(k) != want[k]}
                if diff:
                    sim.violation(f"C15.style_{sfx}", {"attrs": sorted(diff)},
                                  f"{where} [{r},{c}] style {name!r}: (library, given) differ in {diff}")
            elif defaults is not None:
                got = style_snapshot(cell.style)
                want = defaults.get(pos_class(tm, r, c))
                if want is not None and got != want:
                    diff = {k: (got.get(k), want[k]) for k in want if got.get(k) != want[k]}
                    sim.violation(f"C15.unstyled_{sfx}", {"attrs": sorted(diff)},
                                  f"{where} [{r},{c}] was never styled but its style changed: (now, pristine) {diff}")
        if what in ("border", "both"):
            got = border_snapshot(cell)
            want = expected_borders(tm, r, c)
            if got != want:
                sides = [s for s, g, w in zip(("top", "right", "bottom", "left"), got, want) if g != w]
                sim.violation(f"C15.edge_{sfx}", {"sides": len(sides)},
                              f"{where} [{r},{c}] borders (top,right,bottom,left): library {got}, last-writer-wins model {want}; differing: {sides}")
    sim.stats["cells_compared"] += len(cells)


def sim_doc_styles(sim: Sim, tm) -> dict:
    for ds in sim.docs:
        for _si, _ti, t in ds.model.tables():
            if t is tm:
                return ds.model.styles
    return getattr(sim, "_reopen_styles", {})


def pos_class(tm, r: int, c: int) -> str:
    if r < tm.hdr_r:
        return "header_row"
    if c < tm.hdr_c:
        return "header_col"
    return "body"


def _stroke_row(tm, r: int) -> bool:
    return tm.row_stroke_seq.get(r, 0) > tm.row_h_seq.get(r, 0)


def _stroke_col(tm, c: int) -> bool:
    return tm.col_stroke_seq.get(c, 0) > tm.col_w_seq.get(c, 0)


@op("observe")
def op_observe(sim: Sim, a) -> str:
    """A read-only accessor call: scheduled, logged, and checked against the model where it has an opinion."""
    ds = sim.pick_doc(a["d"])
    if ds is None:
        return "skip"
    si, ti, tm, table = sim.pick_table(ds, a["s"], a["t"])
    if not sim.real:
        return "ok"
    kind = a["kind"]
    scope = a.get("scope", "cell")
    if scope == "cell":
        cells = [(a.get("r", 0) % tm.nrows, a.get("c", 0) % tm.ncols)]
    elif scope == "row":
        rr = a.get("r", 0) % tm.nrows
        cells = [(rr, c) for c in range(tm.ncols)]
    else:
        cells = [(r, c) for r in range(tm.nrows) for c in range(tm.ncols)]
    sim.probe(f"observe_{kind}_{scope}")
    where = f"doc table {si}/{ti}"
    if kind in ("style", "border", "both"):
        if "look" in sim.aspects:
            check_look(sim, table, tm, where, kind, reloaded=False, cells=cells)
        else:
            data = table.rows()
            for r, c in cells:
                if kind in ("style", "both"):
                    _ = data[r][c].style
                if kind in ("border", "both"):
                    _ = data[r][c].border
    elif kind == "row_height":
        for r in sorted({r for r, _ in cells}):
            h = table.row_height(r)
            want = tm.row_h.get(r)
            if "geom" in sim.aspects and want is not None and h != want and not _stroke_row(tm, r):
                sim.violation("C16.set_values_now", {"what": "row_height"}, f"{where}: row_height({r}) = {h}, was set to {want}")
    elif kind == "col_width":
        for c in sorted({c for _, c in cells}):
            w = table.col_width(c)
            want = tm.col_w.get(c)
            if "geom" in sim.aspects and want is not None and w != want and not _stroke_col(tm, c):
                sim.violation("C16.set_values_now", {"what": "col_width"}, f"{where}: col_width({c}) = {w}, was set to {want}")
    elif kind == "size":
        _ = table.height
        _ = table.width
    elif kind == "labels":
        got = {"name": table.name, "caption": table.caption, "caption_enabled": bool(table.caption_enabled), "name_enabled": bool(table.table_name_enabled),
               "headers": (table.num_header_rows, table.num_header_cols)}
        _ = tuple(table.coordinates)
        if "geom" in sim.aspects:
            want = {"name": tm.name, "caption": tm.caption, "caption_enabled": tm.caption_enabled, "name_enabled": tm.name_enabled, "headers": (tm.hdr_r, tm.hdr_c)}
            for k, w in want.items():
                if w is not None and got[k] != w:
                    sim.violation("C16.set_values_now", {"what": k}, f"{where}: {k} reads {got[k]!r} on the open document, was set to {w!r}")
    elif kind == "formula":
        data = table.rows()
        for r, c in cells:
            _ = data[r][c].formula
    elif kind == "formatted_value":
        data = table.rows()
        for r, c in cells:
            _ = data[r][c].formatted_value
    elif kind == "merge_ranges":
        _ = table.merge_ranges
    elif kind == "image":
        data = table.rows()
        with warnings.catch_warnings():
            warnings.simplefilter("ignore")
            for r, c in cells:
                _ = data[r][c].style.bg_image if data[r][c].style is not None else None
    return "ok"


def reopen_check(sim: Sim, doc, slot) -> None:
    """C15.*_reloaded: every cell's style and borders on the freshly reopened instance."""
    m = slot.model
    sim._reopen_styles = m.styles
    defaults = getattr(sim, "pristine_style_defaults", None)
    for si, ti, tm in m.tables():
        table = doc.sheets[si].tables[ti]
        if tm.__dict__.get("opaque_look"):
            continue
        check_look(sim, table, tm, f"reopened {slot.name} table {si}/{ti}", "both", reloaded=True, defaults=defaults)


# ---------------------------------------------------------------------------------------------
# observer twin on shipped documents: does reading change what is saved?


def _safe(fn):
    """An accessor that raises is an observation too (whether it may raise is C02's business)."""
    try:
        return fn()
    except Exception as e:  # noqa: BLE001
        return ("raises", type(e).__name__)


def look_snapshot(doc, max_cells=600) -> dict:
    out = {}
    for si, sheet in enumerate(doc.sheets):
        for ti, table in enumerate(sheet.tables):
            n = 0
            for r, row in enumerate(table.rows()):
                for c, cell in enumerate(row):
                    if type(cell).__name__ == "MergedCell":
                        continue
                    n += 1
                    if n > max_cells:
                        break
                    with warnings.catch_warnings():
                        warnings.simplefilter("ignore")
                        out[(si, ti, r, c)] = (_safe(lambda: style_snapshot(cell.style)), _safe(lambda: border_snapshot(cell)))
    return out


def geom_snapshot(doc, sizes=False) -> dict:
    out = {}
    for si, sheet in enumerate(doc.sheets):
        out[("sheet", si)] = sheet.name
        for ti, table in enumerate(sheet.tables):
            k = (si, ti)
            out[(k, "name")] = table.name
            out[(k, "hdr")] = (table.num_header_rows, table.num_header_cols)
            out[(k, "coords")] = tuple(table.coordinates)
            out[(k, "caption")] = (table.caption, table.caption_enabled, table.table_name_enabled)
            out[(k, "rows")] = tuple(table.row_height(r) for r in range(min(table.num_rows, 300)))
            out[(k, "cols")] = tuple(table.col_width(c) for c in range(min(table.num_cols, 300)))
            if sizes:
                out[(k, "size")] = (table.height, table.width)
                if table.num_rows <= 300 and table.num_cols <= 300:
                    out[(k, "size_is_sum")] = (table.height == sum(out[(k, "rows")]), table.width == sum(out[(k, "cols")]))
    return out


SNAPSHOTS = {"look": (look_snapshot, "C15.read_is_pure"), "geom": (geom_snapshot, "C16.queried_or_not")}


def apply_observers(sim: Sim, doc, observers) -> None:
    for ob in observers:
        sheets = doc.sheets
        sheet = sheets[ob.get("s", 0) % len(sheets)]
        table = sheet.tables[ob.get("t", 0) % len(sheet.tables)]
        data = table.rows()
        nr, nc = table.num_rows, table.num_cols
        if ob.get("scope") == "table":
            cells = [(r, c) for r in range(min(nr, 60)) for c in range(min(nc, 30))]
        else:
            cells = [(ob.get("r", 0) % nr, ob.get("c", 0) % nc)]
        kind = ob["kind"]
        with warnings.catch_warnings():
            warnings.simplefilter("ignore")
            for r, c in cells:
                cell = data[r][c]
                if kind == "style":
                    _safe(lambda: cell.style)
                elif kind == "border":
                    _safe(lambda: cell.border)
                elif kind == "formula":
                    _safe(lambda: cell.formula)
                elif kind == "formatted_value":
                    _safe(lambda: cell.formatted_value)
                elif kind == "row_height":
                    _safe(lambda: table.row_height(r))
                elif kind == "col_width":
                    _safe(lambda: table.col_width(c))
            if kind == "size":
                _safe(lambda: table.height)
                _safe(lambda: table.width)
            elif kind == "merge_ranges":
                _safe(lambda: table.merge_ranges)
        sim.probe("twin_observe_" + kind)


def _diff_kind(diff) -> str:
    kinds = sorted({str(k[1]) if isinstance(k, tuple) and len(k) == 2 and isinstance(k[1], str) else "other" for k, _a, _b in diff})
    return ",".join(kinds)


@op("twin_resave")
def op_twin_resave(sim: Sim, a) -> str:
    """
    Observer twin: two instances opened from the same shipped document; only one receives the
    read-only accessor calls; both are saved and reopened (1..3 cycles).  What they reload must be equal.
    """
    if not sim.real:
        return "ok"
    from numbers_parser import Document

    snap_fn, check_id = SNAPSHOTS[a.get("snap", "look")]
    src = os.path.join(FIXTURE_DIR, a["name"])
    w = sim.world
    pa, pb = w.path("twinA.numbers"), w.path("twinB.numbers")
    package = bool(a.get("package"))
    with warnings.catch_warnings():
        warnings.simplefilter("ignore")
        da, db = Document(src), Document(src)
        for cyc in range(max(1, a.get("cycles", 1))):
            obs = a["observers"] if (cyc == 0 or a.get("observe_each_cycle")) else []
            apply_observers(sim, da, obs)
            for doc, path, who in ((da, pa, "observed"), (db, pb, "unobserved")):
                w.remove(path)
                w.begin_save(None)
                try:
                    doc.save(path, package=package)
                except Exception as e:  # noqa: BLE001
                    from dsim.sim import lib_frame

                    if who == "observed":
                        # does the unobserved twin save?  if so, reading broke the save
                        w.end_save()
                        try:
                            w.remove(pb)
                            db.save(pb, package=package)
                            other_ok = True
                        except Exception:  # noqa: BLE001
                            other_ok = False
                        if other_ok:
                            sim.violation(check_id, {"what": "save_raises_after_read", "exc": type(e).__name__},
                                          f"{a['name']}: after {[o['kind'] for o in obs]} the save raised {type(e).__name__}: {e} ({lib_frame(e)}); the unobserved twin saves fine")
                    return "source_does_not_save"
                finally:
                    w.end_save()
            da, db = Document(pa), Document(pb)
            # snapshots are read from separate probe instances: da/db stay as (un)queried as the schedule says
            sa, sb = snap_fn(Document(pa)), snap_fn(Document(pb))
            if sa != sb:
                diff = [(k, sa.get(k), sb.get(k)) for k in sorted(set(sa) | set(sb), key=str) if sa.get(k) != sb.get(k)][:3]
                sim.violation(check_id, {"what": "reload_differs", "kinds": sorted({o["kind"] for o in a["observers"]})},
                              f"{a['name']} cycle {cyc + 1}: the twin that was read ({[o['kind'] for o in a['observers']]}) reloads differently from the twin that was not: (key, observed, unobserved) {diff}")
            if a.get("vs_source"):
                if cyc == 0:
                    s0 = snap_fn(Document(src))
                    prev = s0
                if sb != s0 and cyc == 0:
                    diff = [(k, s0.get(k), sb.get(k)) for k in sorted(set(s0) | set(sb), key=str) if s0.get(k) != sb.get(k)][:3]
                    sim.violation("C16.source_values_survive", {"what": _diff_kind(diff)},
                                  f"{a['name']}: a plain open/save (nothing queried) changes what is reported: (key, source, reloaded) {diff}")
                if sb != prev:
                    diff = [(k, prev.get(k), sb.get(k)) for k in sorted(set(prev) | set(sb), key=str) if prev.get(k) != sb.get(k)][:3]
                    sim.violation("C16.no_drift", {"what": _diff_kind(diff)},
                                  f"{a['name']} cycle {cyc + 1} differs from cycle {cyc}: (key, before, after) {diff}")
                prev = sb
            sim.stats["cells_compared"] += len(sa)
    sim.log.append([sim.step_no, "twin_resave", a["name"], w.tree_digest(pa), w.tree_digest(pb)])
    return "ok"
