"""C06: what is read does not depend on meaning-preserving choices of file layout."""

from __future__ import annotations

import os
import shutil
import struct
import warnings

from dsim import relayout
from dsim.ops_resave import deep_snapshot, diff_snap, classify
from dsim.pkg import Package
from dsim.sim import FIXTURE_DIR, Sim, lib_frame, op
from dsim.world import _REAL_OPEN


def _copy(src: str, dst: str) -> None:
    if os.path.isdir(dst):
        shutil.rmtree(dst)
    elif os.path.exists(dst):
        os.remove(dst)
    if os.path.isdir(src):
        shutil.copytree(src, dst)
    else:
        with _REAL_OPEN(src, "rb") as fi, _REAL_OPEN(dst, "wb") as fo:
            fo.write(fi.read())


class FallbackWatch:
    """Run-time wrapper (from outside, counting only): a lookup by key that fails although an entry
    with that key is present in the list is a silent fallback in the making."""

    def __init__(self) -> None:
        self.events = []

    def __enter__(self):
        from numbers_parser.model import DataLists

        self._cls = DataLists
        self._orig = DataLists.lookup_value
        watch = self

        def lookup_value(dl, table_id, key):
            try:
                return watch._orig(dl, table_id, key)
            except KeyError:
                try:
                    entries = dl._datalists[table_id]["datalist"].entries
                    if any(e.key == key for e in entries):
                        watch.events.append((dl._datalist_name, key))
                except Exception:  # noqa: BLE001
                    pass
                raise

        DataLists.lookup_value = lookup_value
        return self

    def __exit__(self, *exc) -> None:
        self._cls.lookup_value = self._orig


def stored_rows(pkg: Package):
    """Independent view: per table name, {row index declared by the storage record: number of non-generic cell records}."""
    out = {}
    for t in pkg.table_models():
        tiles, tile_size = pkg.tiles_of(t)
        rows = {}
        ncols = t.msg.number_of_columns
        for tid, tobj in tiles:
            if tobj is None:
                continue
            for ri in tobj.msg.rowInfos:
                cnt = len(ri.cell_offsets) // 2
                offs = struct.unpack(f"<{cnt}h", ri.cell_offsets)[:ncols]
                mult = 4 if ri.has_wide_offsets else 1
                buf = ri.cell_storage_buffer
                kinds = []
                for col, o in enumerate(offs):
                    if o < 0:
                        continue
                    pos = o * mult
                    if pos + 2 <= len(buf):
                        kinds.append((col, buf[pos + 1]))
                rows[tid * tile_size + ri.tile_row_index] = kinds
        out.setdefault(t.msg.table_name, []).append((t.msg.number_of_rows, rows))
    return out


def check_row_index(sim: Sim, doc, pkg: Package, label: str) -> None:
    """C06.row_index: every stored row shows up at the row its own storage record declares."""
    stored = stored_rows(pkg)
    seen_names = {}
    for sheet in doc.sheets:
        for table in sheet.tables:
            cands = stored.get(table.name, [])
            k = seen_names.get(table.name, 0)
            seen_names[table.name] = k + 1
            if len(cands) != 1:
                continue  # duplicated names across sheets: cannot be matched without trusting the reader
            nrows, rows = cands[0]
            if nrows != table.num_rows:
                continue
            data = table.rows()
            for r, kinds in rows.items():
                if r >= len(data):
                    sim.violation("C06.row_index", {"what": "row_beyond_table"}, f"{label} table {table.name!r}: storage declares row {r}, table has {len(data)} rows")
                for col, kind in kinds:
                    if col >= len(data[r]):
                        continue
                    cell = data[r][col]
                    cls = type(cell).__name__
                    nonempty_stored = kind != 0
                    nonempty_read = cls not in ("EmptyCell", "MergedCell")
                    if nonempty_stored != nonempty_read and cls != "MergedCell":
                        sim.violation("C06.row_index", {"what": "cell_kind_at_declared_row"},
                                      f"{label} table {table.name!r}: storage record of row {r} has a cell of type {kind} in column {col}, the library reports {cls}({cell.value!r}) there")
            sim.stats["cells_compared"] += sum(len(k) for k in rows.values())


@op("layout_compare")
def op_layout_compare(sim: Sim, a) -> str:
    if not sim.real:
        return "ok"
    from numbers_parser import Document

    w = sim.world
    if a.get("name"):
        src = os.path.join(FIXTURE_DIR, a["name"])
        label = a["name"]
    else:
        slot = sim.slots[a["slot"]]
        if slot.status != "good":
            return "skip"
        src = sim.slot_path(slot.name)
        label = f"in-run document in {slot.name}"
    cap = a.get("deep_cap")
    dst = w.path("layout.numbers")
    _copy(src, dst)
    with warnings.catch_warnings():
        warnings.simplefilter("ignore")
        s0 = deep_snapshot(Document(src), cap)
        applied = {}
        for spec in a["specs"]:
            done = relayout.apply_relayout(dst, spec)
            for k, v in done.items():
                if v:
                    applied[k] = applied.get(k, 0) + v
        fk = sim.stats.setdefault("faults", {})
        for k, v in applied.items():
            fk["relayout_" + k] = fk.get("relayout_" + k, 0) + v
        sim.log.append([sim.step_no, "relaid", label, sorted(applied.items()), w.tree_digest(dst)])
        with FallbackWatch() as fw:
            try:
                doc = Document(dst)
                s1 = deep_snapshot(doc, cap)
            except Exception as e:  # noqa: BLE001
                fr = lib_frame(e)
                sim.violation("C06.same_document", {"what": "raises", "exc": type(e).__name__},
                              f"{label}: after {applied} the rewritten file cannot be read: {type(e).__name__}: {e} ({fr})")
        if fw.events:
            sim.violation("C06.no_silent_fallback", {"list": sorted({e[0] for e in fw.events})},
                          f"{label}: after {applied}: {len(fw.events)} lookups failed for keys that ARE present in the list, e.g. {fw.events[:3]}")
        d, n = diff_snap(s0, s1, set())
        if d:
            sim.violation("C06.same_document", {"what": classify(d)},
                          f"{label}: after {applied} {n}{'+' if n >= 40 else ''} entries read differently; first (key, original, rewritten): {d}")
        check_row_index(sim, doc, Package.read(dst), label)
        sim.stats["cells_compared"] += len(s1)
    return "ok"


def _kinds(a) -> list:
    return sorted({k for spec in a["specs"] for k in spec["kinds"]})


@op("relayout_slot")
def op_relayout_slot(sim: Sim, a) -> str:
    """Disk-side actor: rewrite a saved document's layout in place; a later restart must still equal the model."""
    slot = sim.slots[a["slot"]]
    if slot.status != "good":
        return "skip"
    if not sim.real:
        return "ok"
    done = relayout.apply_relayout(sim.slot_path(slot.name), a["spec"])
    fk = sim.stats.setdefault("faults", {})
    for k, v in done.items():
        if v:
            fk["relayout_" + k] = fk.get("relayout_" + k, 0) + v
    slot.relaid = True
    slot.merge_pictures = None
    sim.log.append([sim.step_no, "relaid_slot", slot.name, sorted(done.items()), sim.world.tree_digest(sim.slot_path(slot.name))])
    return "ok"
