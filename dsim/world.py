"""
The simulated world: disk, clock, uuid source, directory order, fault plans.

One World per run.  Everything random in it is derived from the run seed through
named sub-streams so that deleting operations while shrinking does not shift the
environment draws.  Nothing in here imports numbers_parser except to rebind the
``uuid1`` name the library imported at module level.
"""

from __future__ import annotations

import builtins
import errno
import gc
import hashlib
import io
import os
import random
import shutil
import tempfile
import time as _real_time
import uuid as _uuid
import zipfile

_REAL_OPEN = io.open
_REAL_BUILTIN_OPEN = builtins.open
_REAL_LISTDIR = os.listdir
_REAL_SCANDIR = os.scandir
_REAL_ZIP_TIME = zipfile.time
_REAL_UUID1 = _uuid.uuid1
_REAL_UUID4 = _uuid.uuid4


class SimCrash(BaseException):
    """The simulated process died in the middle of a write (not an Exception on purpose)."""


class HarnessError(Exception):
    """Something is wrong with the simulator itself, never with the code under test."""


def substream(seed: int, name: str) -> random.Random:
    h = hashlib.sha256(f"{seed}:{name}".encode()).digest()
    return random.Random(int.from_bytes(h[:8], "big"))


class _TimeShim:
    """Stands in for the ``time`` module inside zipfile: reads the simulated clock."""

    def __init__(self, world) -> None:
        self._world = world

    def time(self):
        return self._world.clock_now()

    def localtime(self, secs=None):
        if secs is None:
            secs = self._world.clock_now()
        # gmtime: independent of the TZ of the sandbox
        return _real_time.gmtime(secs)

    def __getattr__(self, name):
        return getattr(_real_time, name)


class WritePlan:
    """A write-fault plan for one save: cut after ``budget`` bytes."""

    def __init__(self, kind: str, budget: int, err: int = errno.ENOSPC, lost: int = 0, transient: bool = False) -> None:
        self.kind = kind  # "write_error" | "crash"
        # transient write error: the one write that crosses the budget fails, the handle stays usable (disk space
        # came back, EINTR-like) - so whatever still holds the handle can write to the same inode LATER, e.g. a
        # finaliser emitting its central directory after a retry has already rewritten the file
        self.transient = transient
        self.budget = budget
        self.err = err
        self.lost = lost
        self.written = 0
        self.fired = False
        self.fired_in = None


class SimFile:
    """
    A file opened for writing under the simulated root.  A thin wrapper over a real
    tmpfs file: bytes are handed to the real file unless the active write plan cuts.
    """

    def __init__(self, world, path: str, mode: str) -> None:
        self._world = world
        self._path = path
        self.mode = mode
        self.name = path
        self._fh = _REAL_OPEN(path, mode, buffering=0)
        self._dead = False
        self._dead_pos = 0
        self._since_seek = 0
        self.closed = False
        world.stats["files_opened_w"] += 1
        world._open_files.append(self)

    # -- write path -----------------------------------------------------------------------
    def write(self, data) -> int:
        if self.closed:
            msg = "write to closed file"
            raise ValueError(msg)
        data = bytes(data)
        if self._dead:
            # the medium is gone for this file: later writes (e.g. the central directory a
            # finaliser tries to emit) are dropped
            self._world.stats["writes_dropped_after_fault"] += 1
            return len(data)
        plan = self._world.write_plan
        n = len(data)
        if plan is not None and not plan.fired and plan.written + n > plan.budget:
            keep = max(0, plan.budget - plan.written)
            if keep:
                self._fh.write(data[:keep])
                self._since_seek += keep
            plan.written += keep
            plan.fired = True
            plan.fired_in = os.path.relpath(self._path, self._world.root)
            self._world.stats["bytes_written"] += keep
            self._world._fire(plan, self)
            # _fire always raises
        self._fh.write(data)
        self._since_seek += n
        if plan is not None:
            plan.written += n
        self._world.stats["bytes_written"] += n
        return n

    def seek(self, pos, whence=0):
        if self._dead:
            self._dead_pos = pos if whence == 0 else self._dead_pos
            return self._dead_pos
        self._since_seek = 0
        return self._fh.seek(pos, whence)

    def tell(self):
        if self._dead:
            return self._dead_pos
        return self._fh.tell()

    def flush(self) -> None:
        if not self.closed and not self._dead:
            self._fh.flush()

    def truncate(self, size=None):
        if self._dead:
            return 0
        return self._fh.truncate(size)

    def read(self, n=-1):
        if self._dead:
            return b""
        return self._fh.read(n)

    def seekable(self) -> bool:
        return True

    def readable(self) -> bool:
        return "+" in self.mode or "r" in self.mode

    def writable(self) -> bool:
        return True

    def fileno(self):
        raise OSError("simulated file has no descriptor")

    def close(self) -> None:
        if self._dead:
            return  # stays "open" for the abandoned ZipFile's finaliser; the real handle is gone
        if not self.closed:
            self.closed = True
            self._fh.close()

    def _kill(self, lost: int) -> None:
        """The write fault fired: freeze the durable content, drop everything after."""
        if self._dead:
            return
        try:
            self._dead_pos = self._fh.tell()
            if lost:
                drop = min(lost, self._since_seek)
                if drop:
                    size = self._fh.seek(0, 2)
                    self._fh.truncate(max(0, size - drop))
        finally:
            self._dead = True
            self._fh.flush()
            self._fh.close()

    def __enter__(self):
        return self

    def __exit__(self, *exc) -> None:
        self.close()

    def __del__(self) -> None:
        try:
            self.close()
        except Exception:  # noqa: BLE001
            pass


class World:
    def __init__(self, seed: int, keep_root: bool = False) -> None:
        self.seed = seed
        self.rng_env = substream(seed, "env")
        self.rng_step = substream(seed, "step:-1")
        self.root = tempfile.mkdtemp(prefix="dsim-", dir="/dev/shm" if os.path.isdir("/dev/shm") else None)
        self.root = os.path.realpath(self.root)
        self._keep_root = keep_root
        self.write_plan: WritePlan | None = None
        self._open_files: list[SimFile] = []
        self._installed = False
        # clock: seconds since epoch, inside the range zip can represent
        self._clock = float(self.rng_env.randrange(315_532_800 + 86_400, 4_354_819_200 - 86_400))
        self._uuid_counter = self.rng_env.getrandbits(60)
        self._uuid_node = self.rng_env.getrandbits(47) | (1 << 40)
        self.listdir_mode = self.rng_env.choice(["shuffle", "sorted", "reversed", "shuffle"])
        self.stats = {
            "files_opened_w": 0,
            "bytes_written": 0,
            "writes_dropped_after_fault": 0,
            "listdir_calls": 0,
            "listdir_permuted": 0,
            "clock_reads": 0,
            "clock_jumps_back": 0,
            "uuid_draws": 0,
            "write_error_fired": 0,
            "crash_fired": 0,
        }

    # -- clock ------------------------------------------------------------------------------
    def clock_now(self) -> float:
        self.stats["clock_reads"] += 1
        return self._clock

    def set_step(self, op_id) -> None:
        """Per-operation environment stream keyed by the operation's stable id, so deleting
        other operations while shrinking does not change what this operation meets."""
        self.rng_step = substream(self.seed, f"step:{op_id}")
        self.clock_advance(self.rng_step)

    def clock_advance(self, rng: random.Random) -> None:
        """Between operations: mostly forward, sometimes a jump backwards (clock skew/reset)."""
        r = rng.random()
        if r < 0.08:
            self._clock = max(315_619_200.0, self._clock - rng.randrange(1, 10 * 365 * 86_400))
            self.stats["clock_jumps_back"] += 1
        elif r < 0.16:
            self._clock = min(4_354_732_800.0, self._clock + rng.randrange(1, 10 * 365 * 86_400))
        else:
            self._clock = min(4_354_732_800.0, self._clock + rng.random() * 100)

    # -- uuid -------------------------------------------------------------------------------
    def _uuid1(self, node=None, clock_seq=None):
        self.stats["uuid_draws"] += 1
        self._uuid_counter += 1 + (self._uuid_counter % 7)
        t = self._uuid_counter & ((1 << 60) - 1)
        time_low = t & 0xFFFFFFFF
        time_mid = (t >> 32) & 0xFFFF
        time_hi_version = (t >> 48) & 0x0FFF
        cs = (self._uuid_counter >> 3) & 0x3FFF
        return _uuid.UUID(
            fields=(time_low, time_mid, time_hi_version, (cs >> 8) & 0x3F, cs & 0xFF, self._uuid_node),
            version=1,
        )

    def _uuid4(self):
        self.stats["uuid_draws"] += 1
        self._uuid_counter += 3
        h = hashlib.sha256(f"{self.seed}:{self._uuid_counter}".encode()).digest()
        return _uuid.UUID(bytes=h[:16], version=4)

    # -- paths ------------------------------------------------------------------------------
    def under_root(self, path) -> bool:
        try:
            p = os.path.abspath(os.fspath(path))
        except TypeError:
            return False
        return p == self.root or p.startswith(self.root + os.sep)

    def path(self, name: str) -> str:
        return os.path.join(self.root, name)

    # -- seams ------------------------------------------------------------------------------
    def _open(self, file, mode="r", *args, **kwargs):
        if isinstance(file, int) or not self.under_root(file):
            if not isinstance(file, int) and any(ch in mode for ch in "wax+"):
                p = os.path.abspath(os.fspath(file))
                if p.startswith("/repo/") or p.startswith("/verif/"):
                    msg = f"write-mode open outside the simulated root: {p}"
                    raise HarnessError(msg)
            return _REAL_OPEN(file, mode, *args, **kwargs)
        if any(ch in mode for ch in "wax+"):
            if "b" not in mode:
                msg = f"text-mode write under simulated root not modelled: {file} {mode}"
                raise HarnessError(msg)
            return SimFile(self, os.path.abspath(os.fspath(file)), mode)
        return _REAL_OPEN(file, mode, *args, **kwargs)

    def _listdir(self, path="."):
        names = _REAL_LISTDIR(path)
        if self.under_root(path):
            self.stats["listdir_calls"] += 1
            names = sorted(names)
            if self.listdir_mode == "shuffle":
                self.rng_step.shuffle(names)
            elif self.listdir_mode == "reversed":
                names.reverse()
            if names != sorted(names):
                self.stats["listdir_permuted"] += 1
        return names

    def _scandir(self, path="."):
        if not self.under_root(path):
            return _REAL_SCANDIR(path)
        entries = {e.name: e for e in _REAL_SCANDIR(path)}
        order = self._listdir(path)
        return _ScandirResult([entries[n] for n in order if n in entries])

    def install(self) -> None:
        if self._installed:
            return
        io.open = self._open
        builtins.open = self._open
        os.listdir = self._listdir
        os.scandir = self._scandir
        zipfile.time = _TimeShim(self)
        _uuid.uuid1 = self._uuid1
        _uuid.uuid4 = self._uuid4
        # the ambient decimal context (precision, rounding mode) is caller-side configuration the library may meet:
        # most runs keep Python's default, the others get a seeded unusual one
        import decimal as _decimal

        self._decimal_saved = _decimal.getcontext().copy()
        rdec = substream(self.seed, "decimal-context")
        if rdec.random() < 0.35:
            ctx = _decimal.getcontext()
            ctx.prec = rdec.choice([3, 6, 9, 15, 17, 50])
            ctx.rounding = rdec.choice([_decimal.ROUND_HALF_EVEN, _decimal.ROUND_UP, _decimal.ROUND_DOWN, _decimal.ROUND_HALF_UP, _decimal.ROUND_FLOOR])
            self.stats["decimal_context_unusual"] = 1
            self.stats[f"decimal_prec_{ctx.prec}"] = 1
        # the process's time zone and the library logger's level are ambient configuration too. A third of the runs get
        # a zone with daylight saving (POSIX TZ strings: no zoneinfo data needed) or a fixed offset, a fifth run with the
        # library's logger at DEBUG (handlers swallow the output)
        import logging as _logging
        import time as _time

        renv = substream(self.seed, "ambient")
        self._tz_saved = os.environ.get("TZ")
        if renv.random() < 0.35:
            tz = renv.choice(["EST5EDT,M3.2.0,M11.1.0", "GMT0BST,M3.5.0/1,M10.5.0", "CET-1CEST,M3.5.0,M10.5.0/3", "AEST-10AEDT,M10.1.0,M4.1.0/3",
                              "<+0545>-5:45", "<-11>11", "UTC0"])
            os.environ["TZ"] = tz
            _time.tzset()
            self.stats["tz_unusual"] = 1
        self._log_saved = None
        if renv.random() < 0.2:
            lg = _logging.getLogger("numbers_parser")
            self._log_saved = (lg.level, list(lg.handlers), lg.propagate)
            lg.setLevel(_logging.DEBUG)
            lg.addHandler(_logging.NullHandler())
            lg.propagate = False
            self.stats["logger_debug"] = 1
        # temporary-file names (tempfile.mkdtemp / mkstemp) come from a seeded sequence too: the library does not
        # use them today, a changed one might, and a name decides where an entry sorts in a directory listing
        import random as _random
        import tempfile as _tempfile

        self._tempfile_saved = _tempfile._name_sequence
        seq = _tempfile._RandomNameSequence()
        seq._rng = _random.Random(self.seed ^ 0x7E3F)
        seq._rng_pid = os.getpid()
        _tempfile._name_sequence = seq
        import numbers_parser.numbers_uuid as nu

        nu.uuid1 = self._uuid1
        # process-global state mutated by a dependency: sigfig.round() calls warnings.resetwarnings(),
        # which wipes every filter of the process (ours included) in the middle of a run and makes the
        # once-per-location registry decide what is recorded - a cold/warm divergence.  Neutralised here.
        import sys as _sys

        self._sigfig_saved = []
        for name, mod in list(_sys.modules.items()):
            if name == "sigfig" or name.startswith("sigfig."):
                for attr in ("resetwarnings", "filterwarnings"):
                    if hasattr(mod, attr):
                        self._sigfig_saved.append((mod, attr, getattr(mod, attr)))
                        setattr(mod, attr, lambda *a, **k: None)
        self._installed = True

    def uninstall(self) -> None:
        if not self._installed:
            return
        io.open = _REAL_OPEN
        builtins.open = _REAL_BUILTIN_OPEN
        os.listdir = _REAL_LISTDIR
        os.scandir = _REAL_SCANDIR
        zipfile.time = _REAL_ZIP_TIME
        _uuid.uuid1 = _REAL_UUID1
        _uuid.uuid4 = _REAL_UUID4
        if hasattr(self, "_tz_saved"):
            import time as _time

            if self._tz_saved is None:
                os.environ.pop("TZ", None)
            else:
                os.environ["TZ"] = self._tz_saved
            _time.tzset()
        if getattr(self, "_log_saved", None) is not None:
            import logging as _logging

            lg = _logging.getLogger("numbers_parser")
            lg.setLevel(self._log_saved[0])
            lg.handlers[:] = self._log_saved[1]
            lg.propagate = self._log_saved[2]
        if hasattr(self, "_decimal_saved"):
            import decimal as _decimal

            _decimal.setcontext(self._decimal_saved)
        if hasattr(self, "_tempfile_saved"):
            import tempfile as _tempfile

            _tempfile._name_sequence = self._tempfile_saved
        import numbers_parser.numbers_uuid as nu

        nu.uuid1 = _REAL_UUID1
        for mod, attr, val in getattr(self, "_sigfig_saved", []):
            setattr(mod, attr, val)
        self._installed = False

    def destroy(self) -> None:
        self.uninstall()
        for f in self._open_files:
            try:
                f._dead = False
                f.close()
            except Exception:  # noqa: BLE001
                pass
        self._open_files.clear()
        if not self._keep_root:
            shutil.rmtree(self.root, ignore_errors=True)

    # -- faults -----------------------------------------------------------------------------
    def _fire(self, plan: WritePlan, f: SimFile):
        if plan.kind == "crash":
            self.stats["crash_fired"] += 1
            # every file still open at the instant of death loses what follows
            for of in self._open_files:
                if not of.closed and not of._dead:
                    of._kill(plan.lost if of is f else 0)
            raise SimCrash(f"crash after {plan.written} bytes in {plan.fired_in}")
        self.stats["write_error_fired"] += 1
        if plan.transient:
            self.stats["write_error_transient"] = self.stats.get("write_error_transient", 0) + 1
        else:
            f._kill(0)
        raise OSError(plan.err, os.strerror(plan.err), f._path)

    def begin_save(self, plan: WritePlan | None) -> None:
        self.write_plan = plan

    def end_save(self) -> None:
        """After a save returned or failed: finalisers run at a fixed point of the schedule."""
        gc.collect()
        self._open_files = [f for f in self._open_files if not f.closed and not f._dead]
        self.write_plan = None

    # -- helpers for the harness (bypass the seams) ---------------------------------------------
    def read_bytes(self, path: str) -> bytes:
        with _REAL_OPEN(path, "rb") as fh:
            return fh.read()

    def write_bytes(self, path: str, data: bytes) -> None:
        with _REAL_OPEN(path, "wb") as fh:
            fh.write(data)

    def tree_digest(self, path: str) -> str:
        """sha1 over a file, or over (relative name, content) of every file of a package dir."""
        h = hashlib.sha1()  # noqa: S324
        if os.path.isdir(path):
            for dirpath, dirnames, filenames in os.walk(path):
                dirnames.sort()
                for fn in sorted(filenames):
                    full = os.path.join(dirpath, fn)
                    h.update(os.path.relpath(full, path).encode())
                    h.update(b"\0")
                    h.update(self.read_bytes(full))
        elif os.path.exists(path):
            h.update(self.read_bytes(path))
        else:
            h.update(b"<absent>")
        return h.hexdigest()

    def tree_size(self, path: str) -> int:
        if os.path.isdir(path):
            total = 0
            for dirpath, _d, filenames in os.walk(path):
                for fn in filenames:
                    total += os.path.getsize(os.path.join(dirpath, fn))
            return total
        if os.path.exists(path):
            return os.path.getsize(path)
        return 0

    def remove(self, path: str) -> None:
        if os.path.isdir(path):
            shutil.rmtree(path)
        elif os.path.exists(path):
            os.remove(path)


class _ScandirResult:
    def __init__(self, entries) -> None:
        self._it = iter(entries)

    def __iter__(self):
        return self

    def __next__(self):
        return next(self._it)

    def __enter__(self):
        return self

    def __exit__(self, *exc) -> None:
        pass

    def close(self) -> None:
        pass
